import json,jsonschema,sys,glob
jsonschema.validate(json.load(open('/verif/MANIFEST.json')),json.load(open('/root/.vp/MANIFEST.schema.json')))
sch=json.load(open('/root/.vp/EVIDENCE.schema.json'))
for f in glob.glob('/verif/evidence/*.json'):
    jsonschema.validate(json.load(open(f)),sch)
print('manifest and', len(glob.glob('/verif/evidence/*.json')), 'evidence files valid')
