package main

// SMT context: declarations, ordered facts, obligations.

import (
	"fmt"
	"go/types"
	"regexp"
	"sort"
	"strings"
	"sync"
)

// Val is an SMT term together with its sort.
type Val struct {
	T string // term
	S string // sort
}

type Obligation struct {
	Name    string   // <pkg>.<func>#<kind>:<label>
	Kind    string   // safe, ensures, inv-entry, inv-preserve, pre, lemma, lock, ...
	Tags    []string // property ids
	FactIdx int      // facts[0:FactIdx] are available
	Guard   string   // path condition (block guard)
	Cond    string   // what must hold
	Func    string   // function key
	Pos     string   // source position (informational only, never part of the name)
	Cover   bool     // cover obligation: expected sat (reachability)
	Note    string
	// extra facts only for this obligation (e.g. class restriction of a known finding)
	Extra []string
	ClassTerm string // known-finding class evaluated at the obligation point
}

// VC is the verification-condition context of one function (or lemma group).
type VC struct {
	prog     *Program
	decls    []string          // declarations in order
	declared map[string]bool   // names declared
	facts    []string          // asserted formulas in program order
	obls     []*Obligation
	nfresh   int
	strlits  map[string]string // literal text -> const
	tags     map[string]int    // type tag ids
	structs  map[string]bool   // datatypes declared
	assumptions map[string]bool // trusted things used (for evidence)
	abstracted  []string        // unsupported constructs met (makes function "abstracted")
	funcKey  string
	comps    map[string]compInfo
	unbound  []string
	uncontracted map[string]bool
	wantClass map[string]*KnownFinding
	prescanSet map[string]bool
	locksAtEntry bool // the contract is entered with some lock held (requires held(..)): no all-free assumption
	sliceMu  sync.Mutex

	noReturnSeen bool // the function calls os.Exit / log.Fatal somewhere: paths after it are cut
	slice    *sliceCache
}

func newVC(p *Program, key string) *VC {
	return &VC{prog: p, declared: map[string]bool{}, strlits: map[string]string{}, tags: map[string]int{},
		structs: map[string]bool{}, assumptions: map[string]bool{}, funcKey: key}
}

const prelude = `(set-option :produce-models true)
(set-logic ALL)
(declare-sort Str 0)
(declare-fun slen (Str) Int)
(declare-fun sat (Str Int) Int)
(assert (forall ((s Str)) (! (>= (slen s) 0) :pattern ((slen s)))))
(assert (forall ((s Str) (i Int)) (! (and (<= 0 (sat s i)) (< (sat s i) 256)) :pattern ((sat s i)))))
(declare-const str_empty Str)
(assert (= (slen str_empty) 0))
(assert (forall ((s Str)) (! (=> (= (slen s) 0) (= s str_empty)) :pattern ((slen s)))))
(declare-fun sconcat (Str Str) Str)
(assert (forall ((a Str) (b Str)) (! (= (slen (sconcat a b)) (+ (slen a) (slen b))) :pattern ((sconcat a b)))))
(assert (forall ((a Str) (b Str) (i Int)) (! (=> (and (<= 0 i) (< i (+ (slen a) (slen b)))) (= (sat (sconcat a b) i) (ite (< i (slen a)) (sat a i) (sat b (- i (slen a)))))) :pattern ((sat (sconcat a b) i)))))
(declare-fun ssub (Str Int Int) Str)
(assert (forall ((a Str) (lo Int) (hi Int)) (! (=> (and (<= 0 lo) (<= lo hi) (<= hi (slen a))) (= (slen (ssub a lo hi)) (- hi lo))) :pattern ((ssub a lo hi)))))
(assert (forall ((a Str) (lo Int) (hi Int) (i Int)) (! (=> (and (<= 0 lo) (<= lo hi) (<= hi (slen a)) (<= 0 i) (< i (- hi lo))) (= (sat (ssub a lo hi) i) (sat a (+ lo i)))) :pattern ((sat (ssub a lo hi) i)))))
(declare-datatypes ((Slice 0)) (((mk-slice (s-ref Int) (s-off Int) (s-len Int) (s-cap Int)))))
(define-fun nil-slice () Slice (mk-slice 0 0 0 0))
(declare-fun sidx (Int Int) Int)
(assert (forall ((o Int) (i Int)) (! (= (sidx o i) (+ o i)) :pattern ((sidx o i)))))
(declare-sort Iface 0)
(declare-fun itag (Iface) Int)
(declare-const inil Iface)
(assert (= (itag inil) 0))
(assert (forall ((i Iface)) (! (>= (itag i) 0) :pattern ((itag i)))))
(assert (forall ((i Iface)) (! (=> (= (itag i) 0) (= i inil)) :pattern ((itag i)))))
(define-fun wrap8 ((x Int)) Int (mod x 256))
(define-fun wrap16 ((x Int)) Int (mod x 65536))
(define-fun wrap32 ((x Int)) Int (mod x 4294967296))
(define-fun swrap8 ((x Int)) Int (- (mod (+ x 128) 256) 128))
(define-fun swrap16 ((x Int)) Int (- (mod (+ x 32768) 65536) 32768))
(define-fun swrap32 ((x Int)) Int (- (mod (+ x 2147483648) 4294967296) 2147483648))
(define-fun imin ((a Int) (b Int)) Int (ite (< a b) a b))
(define-fun imax ((a Int) (b Int)) Int (ite (< a b) b a))
`

func (vc *VC) fresh(prefix, sort string) string {
	vc.nfresh++
	n := fmt.Sprintf("%s_%d", sanitize(prefix), vc.nfresh)
	vc.declare(n, sort)
	return n
}

func (vc *VC) declare(name, sort string) {
	if vc.declared[name] {
		return
	}
	vc.declared[name] = true
	vc.decls = append(vc.decls, fmt.Sprintf("(declare-const %s %s)", name, sort))
}

func (vc *VC) declareFun(name string, args []string, ret string) {
	if vc.declared[name] {
		return
	}
	vc.declared[name] = true
	vc.decls = append(vc.decls, fmt.Sprintf("(declare-fun %s (%s) %s)", name, strings.Join(args, " "), ret))
}

func (vc *VC) rawDecl(name, text string) {
	if vc.declared[name] {
		return
	}
	vc.declared[name] = true
	vc.decls = append(vc.decls, text)
}

// axiom: a fact that belongs with the declarations (valid for all obligations)
func (vc *VC) axiom(f string) { vc.decls = append(vc.decls, "(assert "+f+")") }

func (vc *VC) assume(f string) {
	if f == "true" {
		return
	}
	vc.facts = append(vc.facts, f)
}

func (vc *VC) assumeG(guard, f string) {
	if f == "true" {
		return
	}
	vc.assume(implies(guard, f))
}

// define introduces a named constant equal to term (keeps terms small).
func (vc *VC) define(prefix string, v Val) Val {
	if isAtom(v.T) {
		return v
	}
	n := vc.fresh(prefix, v.S)
	vc.facts = append(vc.facts, fmt.Sprintf("(= %s %s)", n, v.T))
	return Val{n, v.S}
}

func isAtom(t string) bool {
	return !strings.ContainsAny(t, " (")
}

func (vc *VC) addObl(o *Obligation) {
	o.FactIdx = len(vc.facts)
	o.Func = vc.funcKey
	vc.obls = append(vc.obls, o)
}

func (vc *VC) abstract(what string) {
	for _, a := range vc.abstracted {
		if a == what {
			return
		}
	}
	vc.abstracted = append(vc.abstracted, what)
}

func (vc *VC) trust(what string) { vc.assumptions[what] = true }

// strLit returns the constant for a string literal, with length and bytes axiomatised.
func (vc *VC) strLit(s string) string {
	if s == "" {
		return "str_empty"
	}
	if c, ok := vc.strlits[s]; ok {
		return c
	}
	c := fmt.Sprintf("lit_%d", len(vc.strlits))
	vc.strlits[s] = c
	vc.declared[c] = true
	vc.decls = append(vc.decls, fmt.Sprintf("(declare-const %s Str) ; %q", c, truncate(s, 60)))
	vc.decls = append(vc.decls, fmt.Sprintf("(assert (= (slen %s) %d))", c, len(s)))
	if len(s) <= 64 {
		for i := 0; i < len(s); i++ {
			vc.decls = append(vc.decls, fmt.Sprintf("(assert (= (sat %s %d) %d))", c, i, s[i]))
		}
	}
	return c
}

// distinctLits emits pairwise distinctness of literals (called at emission time).
func (vc *VC) distinctLits() string {
	if len(vc.strlits) < 1 {
		return ""
	}
	names := []string{"str_empty"}
	for _, c := range vc.strlits {
		names = append(names, c)
	}
	sort.Strings(names)
	if len(names) < 2 {
		return ""
	}
	return "(assert (distinct " + strings.Join(names, " ") + "))\n"
}

func truncate(s string, n int) string {
	if len(s) > n {
		return s[:n] + "…"
	}
	return s
}

func sanitize(s string) string {
	var b strings.Builder
	for _, r := range s {
		switch {
		case r >= 'a' && r <= 'z', r >= 'A' && r <= 'Z', r >= '0' && r <= '9', r == '_':
			b.WriteRune(r)
		case r == '.', r == '/', r == '*', r == '[', r == ']', r == ' ', r == '(', r == ')', r == '$', r == '-', r == ',', r == '{', r == '}':
			b.WriteByte('_')
		default:
			fmt.Fprintf(&b, "u%x", r)
		}
	}
	return b.String()
}

// ---- formula helpers

func and(xs ...string) string {
	var ys []string
	for _, x := range xs {
		if x == "true" || x == "" {
			continue
		}
		if x == "false" {
			return "false"
		}
		ys = append(ys, x)
	}
	switch len(ys) {
	case 0:
		return "true"
	case 1:
		return ys[0]
	}
	return "(and " + strings.Join(ys, " ") + ")"
}

func or(xs ...string) string {
	var ys []string
	for _, x := range xs {
		if x == "false" || x == "" {
			continue
		}
		if x == "true" {
			return "true"
		}
		ys = append(ys, x)
	}
	switch len(ys) {
	case 0:
		return "false"
	case 1:
		return ys[0]
	}
	return "(or " + strings.Join(ys, " ") + ")"
}

func not(x string) string {
	switch x {
	case "true":
		return "false"
	case "false":
		return "true"
	}
	if strings.HasPrefix(x, "(not ") && balancedPrefix(x) {
		return x[5 : len(x)-1]
	}
	return "(not " + x + ")"
}

func balancedPrefix(x string) bool {
	// x = "(not <t>)" where <t> is a single term
	d := 0
	for i, c := range x {
		switch c {
		case '(':
			d++
		case ')':
			d--
			if d == 0 && i != len(x)-1 {
				return false
			}
		}
	}
	return true
}

func implies(a, b string) string {
	if a == "true" {
		return b
	}
	if b == "true" || a == "false" {
		return "true"
	}
	return "(=> " + a + " " + b + ")"
}

func ite(c, a, b string) string {
	if c == "true" {
		return a
	}
	if c == "false" {
		return b
	}
	if a == b {
		return a
	}
	return "(ite " + c + " " + a + " " + b + ")"
}

func eq(a, b string) string {
	if a == b {
		return "true"
	}
	return "(= " + a + " " + b + ")"
}

func sel(a, i string) string      { return "(select " + a + " " + i + ")" }
func store(a, i, v string) string { return "(store " + a + " " + i + " " + v + ")" }
func app(f string, args ...string) string {
	if len(args) == 0 {
		return f
	}
	return "(" + f + " " + strings.Join(args, " ") + ")"
}
func itoa(i int64) string {
	if i < 0 {
		return fmt.Sprintf("(- %d)", -i)
	}
	return fmt.Sprintf("%d", i)
}

// ---- sorts

const timeSort = "Int"

// sortOf maps a Go type to an SMT sort, declaring datatypes on demand.
func (vc *VC) sortOf(t types.Type) string {
	if t == nil {
		return "Int"
	}
	if n, ok := t.(*types.Named); ok {
		if isNamed(n, "time", "Time") {
			return timeSort
		}
	}
	switch u := t.Underlying().(type) {
	case *types.Basic:
		switch {
		case u.Info()&types.IsBoolean != 0:
			return "Bool"
		case u.Info()&types.IsString != 0:
			return "Str"
		case u.Info()&types.IsFloat != 0:
			return "Real"
		case u.Kind() == types.UntypedNil:
			return "Int"
		}
		return "Int"
	case *types.Pointer, *types.Map, *types.Chan, *types.Signature:
		return "Int"
	case *types.Slice:
		return "Slice"
	case *types.Interface:
		return "Iface"
	case *types.Array:
		return "(Array Int " + vc.sortOf(u.Elem()) + ")"
	case *types.Struct:
		return vc.structSort(t, u)
	case *types.Tuple:
		return "Tuple" // never used as a sort
	}
	return "Int"
}

func isNamed(n *types.Named, pkg, name string) bool {
	o := n.Obj()
	return o != nil && o.Name() == name && o.Pkg() != nil && o.Pkg().Path() == pkg
}

func typeKey(t types.Type) string {
	t = types.Unalias(t)
	if b, ok := t.(*types.Basic); ok {
		switch b.Kind() {
		case types.Uint8:
			return "uint8"
		case types.Int32:
			return "int32"
		}
	}
	s := types.TypeString(t, func(p *types.Package) string {
		path := p.Path()
		if i := strings.LastIndex(path, "/"); i >= 0 {
			path = path[i+1:]
		}
		return path
	})
	s = reByte.ReplaceAllString(s, "uint8")
	s = reRune.ReplaceAllString(s, "int32")
	s = reAny.ReplaceAllString(s, "interface{}")
	return sanitize(s)
}

var (
	reByte = regexp.MustCompile(`\bbyte\b`)
	reRune = regexp.MustCompile(`\brune\b`)
	reAny  = regexp.MustCompile(`\bany\b`)
)

func (vc *VC) structSort(t types.Type, st *types.Struct) string {
	name := "S_" + typeKey(t)
	if len(name) > 80 {
		name = fmt.Sprintf("S_anon%d_%s", len(vc.structs), name[len(name)-20:])
	}
	if vc.structs[name] {
		return name
	}
	vc.structs[name] = true
	var fs []string
	for i := 0; i < st.NumFields(); i++ {
		f := st.Field(i)
		fs = append(fs, fmt.Sprintf("(%s_%s %s)", name, sanitize(f.Name()), vc.sortOf(f.Type())))
	}
	if len(fs) == 0 {
		fs = append(fs, fmt.Sprintf("(%s_dummy Int)", name))
	}
	vc.decls = append(vc.decls, fmt.Sprintf("(declare-datatypes ((%s 0)) (((mk_%s %s))))", name, name, strings.Join(fs, " ")))
	return name
}

// zero value of a Go type
func (vc *VC) zero(t types.Type) Val {
	s := vc.sortOf(t)
	return Val{vc.zeroOfSort(s, t), s}
}

func (vc *VC) zeroOfSort(s string, t types.Type) string {
	switch s {
	case "Int":
		return "0"
	case "Bool":
		return "false"
	case "Real":
		return "0.0"
	case "Str":
		return "str_empty"
	case "Slice":
		return "nil-slice"
	case "Iface":
		return "inil"
	}
	if strings.HasPrefix(s, "(Array Int ") {
		arr := t.Underlying().(*types.Array)
		return fmt.Sprintf("((as const %s) %s)", s, vc.zero(arr.Elem()).T)
	}
	if st, ok := t.Underlying().(*types.Struct); ok {
		var fs []string
		for i := 0; i < st.NumFields(); i++ {
			fs = append(fs, vc.zero(st.Field(i).Type()).T)
		}
		if len(fs) == 0 {
			fs = []string{"0"}
		}
		return "(mk_" + s + " " + strings.Join(fs, " ") + ")"
	}
	return "0"
}

// typeTag returns the integer tag of a concrete dynamic type inside interfaces.
func (vc *VC) typeTag(t types.Type) (tag int, box, unbox string) {
	k := typeKey(t)
	box, unbox = "box_"+k, "unbox_"+k
	if id, ok := vc.tags[k]; ok {
		return id, box, unbox
	}
	id := len(vc.tags) + 1
	vc.tags[k] = id
	s := vc.sortOf(t)
	vc.declareFun(box, []string{s}, "Iface")
	vc.declareFun(unbox, []string{"Iface"}, s)
	vc.axiom(fmt.Sprintf("(forall ((x %s)) (! (and (= (%s (%s x)) x) (= (itag (%s x)) %d)) :pattern ((%s x))))", s, unbox, box, box, id, box))
	vc.axiom(fmt.Sprintf("(forall ((i Iface)) (! (=> (= (itag i) %d) (= (%s (%s i)) i)) :pattern ((%s i))))", id, box, unbox, unbox))
	return id, box, unbox
}

// range assumption for a value of Go type t
func (vc *VC) rangeFact(t types.Type, term string) string {
	if b, ok := t.Underlying().(*types.Basic); ok {
		switch b.Kind() {
		case types.Uint8:
			return fmt.Sprintf("(and (<= 0 %s) (< %s 256))", term, term)
		case types.Uint16:
			return fmt.Sprintf("(and (<= 0 %s) (< %s 65536))", term, term)
		case types.Uint32:
			return fmt.Sprintf("(and (<= 0 %s) (< %s 4294967296))", term, term)
		case types.Uint, types.Uint64, types.Uintptr:
			return fmt.Sprintf("(and (<= 0 %s) (<= %s 18446744073709551615))", term, term)
		case types.Int8:
			return fmt.Sprintf("(and (<= (- 128) %s) (< %s 128))", term, term)
		case types.Int16:
			return fmt.Sprintf("(and (<= (- 32768) %s) (< %s 32768))", term, term)
		case types.Int32:
			return fmt.Sprintf("(and (<= (- 2147483648) %s) (< %s 2147483648))", term, term)
		case types.Int, types.Int64:
			return fmt.Sprintf("(and (<= (- 9223372036854775808) %s) (<= %s 9223372036854775807))", term, term)
		}
		return "true"
	}
	switch t.Underlying().(type) {
	case *types.Slice:
		return fmt.Sprintf("(and (<= 0 (s-off %s)) (<= 0 (s-len %s)) (<= (s-len %s) (s-cap %s)) (<= (+ (s-off %s) (s-cap %s)) 9223372036854775807) (>= (s-ref %s) 0) (=> (= (s-ref %s) 0) (= (s-cap %s) 0)))", term, term, term, term, term, term, term, term, term)
	case *types.Pointer, *types.Map, *types.Chan, *types.Signature:
		return fmt.Sprintf("(>= %s 0)", term)
	}
	return "true"
}
