package main

// nolocksheld(): this activation holds no lock at this point.  Meant for `site block * L: requires nolocksheld()`:
// a goroutine that blocks on a channel while it holds a lock keeps everybody who needs that lock waiting for as long
// as the channel's other side takes (for ever, when that other side needs the lock).  Evaluated over the lock classes
// this activation has touched; classes it never touched are free by the entry assumption.

import (
	"fmt"
	"go/types"
	"sort"
	"strings"
)

func init() {
	extCalls["nolocksheld"] = func(e *Env, x *Expr) (Bound, error) {
		if len(x.Args) != 0 {
			return Bound{}, fmt.Errorf("nolocksheld()")
		}
		if e.vc.locksAtEntry {
			return Bound{}, fmt.Errorf("nolocksheld() in a function that is entered with a lock held")
		}
		var comps []string
		for c := range e.state.comp {
			if strings.HasPrefix(c, "Held_") {
				comps = append(comps, c)
			}
		}
		sort.Strings(comps)
		var conj []string
		for _, c := range comps {
			conj = append(conj, "(forall ((nl_r Int)) (= (select "+e.vc.get(e.state, c)+" nl_r) 0))")
		}
		return Bound{V: Val{and(conj...), "Bool"}, T: types.Typ[types.Bool]}, nil
	}
}
