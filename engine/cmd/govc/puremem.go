package main

// Calls of a contract declared `pure` are functions of their arguments and of the heap: a second call with the same
// argument terms in a state whose every component has the same version as at the first call gets the same result
// terms.  The comparison is syntactic (conservative): any store, havoc, allocation or clock step in between makes the
// states differ and the second call gets fresh results as before.  For interface methods the implementation is not
// known, so the reuse also supposes that no other goroutine changes what the method reads between the two calls; that
// is recorded as an assumption whenever a reuse happens.

import (
	"fmt"
	"sort"
	"strings"
	"sync"
)

var pureMemo sync.Map // *VC -> map[string][]Val

func (f *Frame) pureKey(callee string, args []Val) string {
	var b strings.Builder
	b.WriteString(callee)
	for _, a := range args {
		b.WriteString("|" + a.T)
	}
	fmt.Fprintf(&b, "|e%d", f.cur.epoch)
	keys := make([]string, 0, len(f.cur.comp))
	for k := range f.cur.comp {
		keys = append(keys, k)
	}
	sort.Strings(keys)
	for _, k := range keys {
		b.WriteString(";" + k + "=" + f.cur.comp[k])
	}
	return b.String()
}

func (f *Frame) pureLookup(key string, n int) []Val {
	m, ok := pureMemo.Load(f.vc)
	if !ok {
		return nil
	}
	r := m.(map[string][]Val)[key]
	if len(r) != n {
		return nil
	}
	return r
}

func (f *Frame) pureStore(key string, res []Val) {
	m, _ := pureMemo.LoadOrStore(f.vc, map[string][]Val{})
	m.(map[string][]Val)[key] = res
}
