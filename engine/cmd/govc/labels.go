package main

import "fmt"

// assignDefaultLabels gives every unlabelled clause a stable ordinal label (never a line number).
func assignDefaultLabels(cf *ContractFile) {
	lab := func(cs []*Clause, prefix string) {
		n := 0
		for _, c := range cs {
			n++
			if c.Label == "" {
				c.Label = fmt.Sprintf("%s%d", prefix, n)
			}
		}
	}
	for _, ct := range cf.Funcs {
		lab(ct.Requires, "R")
		lab(ct.Ensures, "E")
		lab(ct.AtRelease, "A")
		for _, l := range ct.Loops {
			lab(l.Invariants, "I")
		}
		n := 0
		for _, s := range ct.Sites {
			n++
			if s.Label == "" {
				s.Label = fmt.Sprintf("S%d", n)
			}
		}
	}
	for _, m := range cf.Monitors {
		lab(m.Invs, "M")
		lab(m.Guars, "G")
	}
	for _, l := range cf.Lemmas {
		lab(l.Hyps, "H")
		lab(l.Show, "S")
	}
}
