package main

import (
	"go/ast"
	"go/token"

	"golang.org/x/tools/go/ssa"
)

// loopStmtPos: position of the innermost for/range statement containing every positioned instruction of the loop
// (the statement loopKey names); NoPos when it cannot be determined.  Loop ordinals (#1, #2, ...) follow the
// source order of these statements.
func (f *Frame) loopStmtPos(li *loopInfo) token.Pos {
	var lo, hi token.Pos
	for bi := range li.blocks {
		for _, in := range f.fn.Blocks[bi].Instrs {
			switch in.(type) {
			case *ssa.Phi, *ssa.DebugRef:
				continue
			}
			p := in.Pos()
			if !p.IsValid() {
				continue
			}
			if !lo.IsValid() || p < lo {
				lo = p
			}
			if p > hi {
				hi = p
			}
		}
	}
	if !lo.IsValid() {
		return token.NoPos
	}
	file := f.p.files[f.p.fset.Position(lo).Filename]
	if file == nil {
		return token.NoPos
	}
	var best ast.Node
	ast.Inspect(file, func(n ast.Node) bool {
		if n == nil {
			return false
		}
		if n.Pos() > lo || n.End() < hi {
			return false
		}
		switch n.(type) {
		case *ast.ForStmt, *ast.RangeStmt:
			best = n
		}
		return true
	})
	if best == nil {
		return token.NoPos
	}
	return best.Pos()
}
