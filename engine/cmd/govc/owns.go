package main

import (
	"fmt"
	"go/types"
	"strings"
)

// owns <expr> (function contract): the map or slice the expression denotes at entry belongs to this call alone -
// no other goroutine holds a reference to it (typically: the caller has just decoded it from the wire and hands it
// over).  Its contents therefore survive the interference assumed at lock acquisitions and the havoc of calls to
// code without a contract; this function's own writes are of course tracked.  The clause is an assumption about
// callers and is listed as such.

type ownedObj struct {
	comps []string
	ref   string
}

func (f *Frame) initOwned(env *Env) {
	if f.contract == nil {
		return
	}
	for _, c := range f.contract.Extra["owns"] {
		b, err := env.eval(c.Expr)
		if err != nil || b.T == nil {
			f.vc.unbound = append(f.vc.unbound, fmt.Sprintf("%s: owns %s: %v", f.key, c.Text, err))
			continue
		}
		switch t := b.T.Underlying().(type) {
		case *types.Map:
			has, val := f.vc.regMap(t)
			f.owned = append(f.owned, ownedObj{[]string{has, val}, b.V.T})
		case *types.Slice:
			f.owned = append(f.owned, ownedObj{[]string{f.vc.regMem(t.Elem())}, "(s-ref " + b.V.T + ")"})
		default:
			f.vc.unbound = append(f.vc.unbound, fmt.Sprintf("%s: owns %s: not a map or slice", f.key, c.Text))
			continue
		}
		f.vc.trust(fmt.Sprintf("owns in %s: %s is not shared with other goroutines", f.key, c.Text))
	}
}

func (f *Frame) restoreOwned(old *State) {
	r := f.root()
	for _, o := range r.owned {
		for _, comp := range o.comps {
			if _, ok := f.vc.comps[comp]; !ok {
				continue
			}
			cur, prev := f.vc.get(f.cur, comp), f.vc.get(old, comp)
			if cur == prev {
				continue
			}
			f.vc.set(f.cur, comp, store(cur, o.ref, sel(prev, o.ref)))
		}
	}
}

// unmatchedSites: a site clause that matched no operation of the function generates no obligation at all - a silent
// hole (typically a wrong pattern).  It is reported like any clause that does not bind to the code.
func (f *Frame) unmatchedSites(ct *FuncContract, key string) {
	for _, s := range ct.Sites {
		if s.Label == "" {
			continue
		}
		found := false
		for _, o := range f.vc.obls {
			if o.Kind != "site" || !strings.HasPrefix(o.Name, key+"#") {
				continue
			}
			n := o.Name
			if i := strings.LastIndex(n, "#"); i > len(key)+1 && i+1 < len(n) && strings.Trim(n[i+1:], "0123456789") == "" {
				n = n[:i] // "#2" suffix of repeated labels
			}
			if strings.HasSuffix(n, ":"+s.Label) {
				found = true
			}
		}
		if !found {
			already := false
			for _, u := range f.vc.unbound {
				if strings.HasPrefix(u, key+": site "+s.Kind) {
					already = true // an evaluation error of that kind of site was reported
				}
			}
			if !already {
				f.vc.unbound = append(f.vc.unbound, fmt.Sprintf("%s: site %s %s %s matches no operation of the function", key, s.Kind, s.Pattern, s.Label))
			}
		}
	}
}
