package main

import (
	"fmt"
	"go/types"
)

// owns <expr> (function contract): the map or slice the expression denotes at entry belongs to this call alone -
// no other goroutine holds a reference to it (typically: the caller has just decoded it from the wire and hands it
// over).  Its contents therefore survive the interference assumed at lock acquisitions and the havoc of calls to
// code without a contract; this function's own writes are of course tracked.  The clause is an assumption about
// callers and is listed as such.

type ownedObj struct {
	comps []string
	ref   string
}

func (f *Frame) initOwned(env *Env) {
	if f.contract == nil {
		return
	}
	for _, c := range f.contract.Extra["owns"] {
		b, err := env.eval(c.Expr)
		if err != nil || b.T == nil {
			f.vc.unbound = append(f.vc.unbound, fmt.Sprintf("%s: owns %s: %v", f.key, c.Text, err))
			continue
		}
		switch t := b.T.Underlying().(type) {
		case *types.Map:
			has, val := f.vc.regMap(t)
			f.owned = append(f.owned, ownedObj{[]string{has, val}, b.V.T})
		case *types.Slice:
			f.owned = append(f.owned, ownedObj{[]string{f.vc.regMem(t.Elem())}, "(s-ref " + b.V.T + ")"})
		default:
			f.vc.unbound = append(f.vc.unbound, fmt.Sprintf("%s: owns %s: not a map or slice", f.key, c.Text))
			continue
		}
		f.vc.trust(fmt.Sprintf("owns in %s: %s is not shared with other goroutines", f.key, c.Text))
	}
}

func (f *Frame) restoreOwned(old *State) {
	r := f.root()
	for _, o := range r.owned {
		for _, comp := range o.comps {
			if _, ok := f.vc.comps[comp]; !ok {
				continue
			}
			cur, prev := f.vc.get(f.cur, comp), f.vc.get(old, comp)
			if cur == prev {
				continue
			}
			f.vc.set(f.cur, comp, store(cur, o.ref, sel(prev, o.ref)))
		}
	}
}
