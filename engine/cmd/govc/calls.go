package main

import (
	"fmt"
	"go/token"
	"go/types"
	"sort"
	"strings"

	"golang.org/x/tools/go/ssa"
)

// ---- pure library models (uninterpreted functions shared by code translation and contracts)

type libModel struct {
	uf    string
	ret   string // sort
	retGo string
	fn    func(vc *VC, args []Val) Val
}

func (m libModel) apply(vc *VC, args []Val) Val {
	if m.fn != nil {
		return m.fn(vc, args)
	}
	var sorts, ts []string
	for _, a := range args {
		sorts = append(sorts, a.S)
		ts = append(ts, a.T)
	}
	vc.declareFun(m.uf, sorts, m.ret)
	return Val{app(m.uf, ts...), m.ret}
}

func (m libModel) goType(p *Program) types.Type {
	switch m.retGo {
	case "string":
		return types.Typ[types.String]
	case "bool":
		return types.Typ[types.Bool]
	case "int":
		return types.Typ[types.Int]
	case "uint64":
		return types.Typ[types.Uint64]
	}
	return nil
}

var libPure = map[string]libModel{
	"strings.ToLower": {uf: "strings_ToLower", ret: "Str", retGo: "string"},
	"strings.ToUpper": {uf: "strings_ToUpper", ret: "Str", retGo: "string"},
	"strings.HasPrefix": {ret: "Bool", retGo: "bool", fn: func(vc *VC, a []Val) Val {
		vc.declareFun("strings_HasPrefix", []string{"Str", "Str"}, "Bool")
		vc.axiomOnce("hasprefix_len", "(forall ((s Str) (p Str)) (! (=> (strings_HasPrefix s p) (>= (slen s) (slen p))) :pattern ((strings_HasPrefix s p))))")
		vc.axiomOnce("hasprefix_bytes", "(forall ((s Str) (p Str) (i Int)) (! (=> (and (strings_HasPrefix s p) (<= 0 i) (< i (slen p))) (= (sat s i) (sat p i))) :pattern ((strings_HasPrefix s p) (sat s i))))")
		return Val{app("strings_HasPrefix", a[0].T, a[1].T), "Bool"}
	}},
	"strings.HasSuffix":  {uf: "strings_HasSuffix", ret: "Bool", retGo: "bool"},
	"strings.EqualFold":  {uf: "strings_EqualFold", ret: "Bool", retGo: "bool"},
	"strings.Contains":   {uf: "strings_Contains", ret: "Bool", retGo: "bool"},
	"strings.TrimSuffix": {uf: "strings_TrimSuffix", ret: "Str", retGo: "string"},
	"strings.TrimPrefix": {uf: "strings_TrimPrefix", ret: "Str", retGo: "string"},
	"strings.TrimSpace":  {uf: "strings_TrimSpace", ret: "Str", retGo: "string"},
	"strings.TrimRight":  {uf: "strings_TrimRight", ret: "Str", retGo: "string"},
	"strings.Index":      {uf: "strings_Index", ret: "Int", retGo: "int"},
	"strings.Compare":    {uf: "strings_Compare", ret: "Int", retGo: "int"},
	"path.Join2":         {uf: "path_Join2", ret: "Str", retGo: "string"},
}

func (vc *VC) axiomOnce(key, f string) {
	if vc.declared["ax:"+key] {
		return
	}
	vc.declared["ax:"+key] = true
	vc.axiom(f)
}

// effect-free library functions: result unconstrained, heap untouched (trusted).
var effectFreePrefixes = []string{
	"fmt.Sprintf", "fmt.Errorf", "fmt.Sprint", "fmt.Sprintln", "errors.", "strconv.", "math.", "unicode", "time.", "(time.",
	"strings.", "(*strings.", "bytes.Equal", "bytes.Compare", "bytes.HasPrefix", "path.", "path/filepath.", "os.Getenv", "os.Getpid",
	"(*github.com/ansible/receptor/pkg/logger.ReceptorLogger).", "github.com/ansible/receptor/pkg/logger.",
	"(*log.Logger).", "log.", "fmt.Print", "fmt.Fprint", "sort.Strings", "net.ParseIP", "(net.IP).", "net.JoinHostPort", "net.SplitHostPort",
	"runtime.", "(reflect.", "reflect.TypeOf", "reflect.ValueOf", "os.IsNotExist", "os.IsExist", "(*errors.",
	"context.WithCancel", "context.WithTimeout", "context.WithDeadline", "context.Background", "context.TODO", "context.WithValue",
	"github.com/ansible/receptor/pkg/randstr.", "crypto/sha256.Sum", "crypto/sha512.Sum", "crypto/sha256.New", "encoding/hex.", "encoding/base64.",
	"(*sync.WaitGroup).", "(*sync.Once).", "sync/atomic.", "(*time.", "os.Hostname", "github.com/google/shlex.",
	"(*regexp.Regexp).MatchString", "regexp.Compile", "regexp.MustCompile", "regexp.QuoteMeta",
	"github.com/minio/highwayhash.", "encoding/binary.", "(encoding/binary.",
	"(*crypto/x509.", "(crypto/x509.", "crypto/x509.", "(*crypto/tls.", "crypto/tls.", "(*crypto/rsa.", "encoding/pem.", "crypto/rand.", "crypto/rsa.", "(*math/big.", "math/big.", "encoding/asn1.",
	"github.com/golang-jwt/jwt/v4.", "(*github.com/golang-jwt/jwt/v4.", "(github.com/golang-jwt/jwt/v4.",
	"os.Stat", "os.Lstat", "os.ReadFile", "os.ReadDir", "(*os.File).Stat", "(*os.File).Name", "os.Getwd", "os.UserHomeDir", "io.ReadAll",
}

func isEffectFree(name string) bool {
	for _, p := range effectFreePrefixes {
		if strings.HasPrefix(name, p) {
			return true
		}
	}
	return false
}

// ---- calls

func (f *Frame) execCall(v ssa.Value, c *ssa.CallCommon, instr ssa.Instruction) {
	res := f.call(c, instr.Pos(), v)
	f.noteLastCall(c, res)
	if v == nil {
		return
	}
	sig := c.Signature()
	switch sig.Results().Len() {
	case 0:
	case 1:
		if len(res) == 1 {
			f.vals[v] = res[0]
		} else {
			f.vals[v] = f.freshVal(v.Name(), sig.Results().At(0).Type())
		}
	default:
		if len(res) == sig.Results().Len() {
			f.tuples[v] = res
		} else {
			var vs []Val
			for i := 0; i < sig.Results().Len(); i++ {
				vs = append(vs, f.freshVal(fmt.Sprintf("%s_%d", v.Name(), i), sig.Results().At(i).Type()))
			}
			f.tuples[v] = vs
		}
	}
}

func (f *Frame) freshResults(c *ssa.CallCommon, name string) []Val {
	sig := c.Signature()
	var vs []Val
	for i := 0; i < sig.Results().Len(); i++ {
		vs = append(vs, f.freshVal(fmt.Sprintf("%s_r%d", sanitize(name), i), sig.Results().At(i).Type()))
	}
	return vs
}

func calleeName(c *ssa.CallCommon) string {
	if c.IsInvoke() {
		return c.Value.Type().String() + "." + c.Method.Name()
	}
	if fn := c.StaticCallee(); fn != nil {
		return fn.String()
	}
	if b, ok := c.Value.(*ssa.Builtin); ok {
		return b.Name()
	}
	return "dynamic:" + c.Value.Name()
}

func shortCallee(c *ssa.CallCommon) string {
	if c.IsInvoke() {
		return c.Method.Name()
	}
	if fn := c.StaticCallee(); fn != nil {
		return fn.Name()
	}
	if b, ok := c.Value.(*ssa.Builtin); ok {
		return b.Name()
	}
	// a func value read from a struct field is named after the field (x.cancel() -> "cancel")
	if u, ok := c.Value.(*ssa.UnOp); ok {
		if fa, ok := u.X.(*ssa.FieldAddr); ok {
			return fieldName(fa)
		}
	}
	return c.Value.Name()
}

func (f *Frame) call(c *ssa.CallCommon, pos token.Pos, v ssa.Value) []Val {
	vc := f.vc
	if b, ok := c.Value.(*ssa.Builtin); ok && !c.IsInvoke() {
		return f.builtin(b, c, pos)
	}
	f.siteCall(c, pos)
	if c.IsInvoke() {
		return f.invoke(c, pos)
	}
	fn := c.StaticCallee()
	if fn == nil {
		// dynamic call through a func value
		if mc, ok := f.closures[c.Value]; ok {
			return f.callClosure(mc, c, pos)
		}
		return f.dynamicCall(c, pos)
	}
	name := fn.String()
	var args []Val
	for _, a := range c.Args {
		args = append(args, f.val(a))
	}
	// locks
	if lk, ok := lockOps[name]; ok {
		f.lockOp(lk, c.Args[0], pos)
		return nil
	}
	if r, ok := f.libCall(name, fn, c, args, pos); ok {
		return r
	}
	if mc, ok := c.Value.(*ssa.MakeClosure); ok {
		return f.callClosure(mc, c, pos)
	}
	if ct := f.p.contractFor(fn); ct != nil {
		if ct.Inline && fn.Blocks != nil && f.depth < 4 {
			return f.inlineCall(fn, args, nil)
		}
		return f.applyContract(ct, fn, args, c, pos)
	}
	if isEffectFree(name) {
		vc.trust("call without heap effect: " + name)
		return f.freshResults(c, fn.Name())
	}
	if f.p.isReceptorFunc(fn) {
		// anonymous function called directly
		if fn.Parent() != nil && fn.Blocks != nil && f.depth < 4 && len(fn.FreeVars) == 0 {
			return f.inlineCall(fn, args, nil)
		}
		// a small loop-free helper of the repository without a contract is executed in place (so that extracting a
		// few lines into a helper does not change what can be proved about the caller)
		if f.smallHelper(fn) {
			return f.inlineCall(fn, args, nil)
		}
		vc.noteUncontracted(f.p.fullKey(fn))
		f.havocAllExceptLocals()
		return f.freshResults(c, fn.Name())
	}
	if isEffectFree(name) {
		vc.trust("library call without heap effect: " + name)
		return f.freshResults(c, fn.Name())
	}
	// compiler-generated wrappers (method expressions T.M, bound methods): executed in place
	if fn.Synthetic != "" && fn.Blocks != nil && f.smallHelper(fn) {
		return f.inlineCall(fn, args, nil)
	}
	// unknown library function: havoc what is reachable from the arguments
	vc.noteUncontracted(name)
	f.havocReachable(c.Args)
	return f.freshResults(c, fn.Name())
}

func (vc *VC) noteUncontracted(name string) {
	if vc.uncontracted == nil {
		vc.uncontracted = map[string]bool{}
	}
	vc.uncontracted[name] = true
}

// havocReachable: an unknown callee may modify whatever its arguments point to.
func (f *Frame) havocReachable(args []ssa.Value) {
	vc := f.vc
	for _, a := range args {
		x := a
		if mi, ok := a.(*ssa.MakeInterface); ok {
			x = mi.X
		}
		switch t := x.Type().Underlying().(type) {
		case *types.Pointer:
			el := t.Elem()
			if isStruct(el) {
				base := f.val(x).T
				deep := false
				for _, l := range structLeaves(el, nil) {
					name, ft := vc.regField(el, l.path)
					fr := vc.fresh(name+"_hv", vc.sortOf(ft))
					vc.set(f.cur, name, store(vc.get(f.cur, name), base, fr))
					switch ft.Underlying().(type) {
					case *types.Pointer, *types.Map, *types.Slice, *types.Interface:
						deep = true
					}
				}
				if deep {
					// the callee may follow pointers stored in the struct: conservative
					f.havocAllExceptLocals()
					return
				}
			} else {
				l, ok := f.locOf(x)
				if !ok {
					f.havocAllExceptLocals()
					return
				}
				fr := f.freshVal("hv", l.typ)
				vc.storeLoc(f.cur, l, fr)
				switch l.typ.Underlying().(type) {
				case *types.Pointer, *types.Map, *types.Interface:
					f.havocAllExceptLocals()
					return
				case *types.Slice:
					comp := vc.regMem(l.typ.Underlying().(*types.Slice).Elem())
					vc.havocComp(f.cur, comp)
				}
			}
		case *types.Slice:
			comp := vc.regMem(t.Elem())
			s := f.val(x)
			m := vc.get(f.cur, comp)
			fr := vc.fresh("blk_hv", "(Array Int "+vc.sortOf(t.Elem())+")")
			vc.set(f.cur, comp, store(m, "(s-ref "+s.T+")", fr))
			switch t.Elem().Underlying().(type) {
			case *types.Pointer, *types.Map, *types.Interface, *types.Slice:
				// a variadic argument list built at the call site: its elements are known, treat each like an argument
				if elems, ok := varargElems(x); ok {
					f.havocReachable(elems)
					continue
				}
				f.havocAllExceptLocals()
				return
			}
		case *types.Map:
			f.havocAllExceptLocals()
			return
		case *types.Interface:
			if _, isMI := a.(*ssa.MakeInterface); !isMI {
				// unknown dynamic value: it may reference anything
				f.havocAllExceptLocals()
				return
			}
		case *types.Signature:
			f.havocAllExceptLocals()
			return
		}
	}
}

func isActivationLocal(k string) bool {
	return isActLocal(k)
}

func isActLocal(k string) bool {
	for _, p := range []string{"Held_", "Defer_", "Visited_", "Ghost_", "Own_", "Spawn_", "SpawnArg_", "Base_"} {
		if strings.HasPrefix(k, p) {
			return true
		}
	}
	return false
}

func (f *Frame) havocAllExceptLocals() {
	// keep Held (locks are only changed by lock operations in receptor code), defer flags and visited sets
	keep := map[string]string{}
	for k, v := range f.cur.comp {
		if isActivationLocal(k) {
			keep[k] = v
		}
	}
	var keepDefault []string
	for k := range f.vc.comps {
		if isActivationLocal(k) {
			if _, ok := keep[k]; !ok {
				keepDefault = append(keepDefault, k)
			}
		}
	}
	for _, k := range keepDefault {
		keep[k] = f.vc.get(f.cur, k)
	}
	oldNext := f.vc.get(f.cur, "next")
	// immutable fields: objects that exist now keep their value; objects allocated by the unknown code are unknown
	immOld := map[string]string{}
	for k := range f.vc.comps {
		if immutableComps[k] {
			immOld[k] = f.vc.get(f.cur, k)
		}
	}
	before := f.cur.clone()
	// monotone ghosts: a closed channel stays closed, a fired sync.Once stays fired
	monoOld := map[string]string{}
	for _, k := range []string{"ChanClosed", "OnceDone"} {
		if _, ok := f.vc.comps[k]; ok {
			monoOld[k] = f.vc.get(f.cur, k)
		}
	}
	f.vc.havocAll(f.cur)
	for k, v := range keep {
		f.cur.comp[k] = v
	}
	for k, old := range monoOld {
		nw := f.vc.get(f.cur, k)
		f.vc.assume(fmt.Sprintf("(forall ((r Int)) (! (=> (select %s r) (select %s r)) :pattern ((select %s r))))", old, nw, nw))
	}
	for k, old := range immOld {
		f.havocKeepOld(k, old, oldNext)
	}
	f.restorePrivate(before)
	f.restoreOwned(before)
	f.keepHeldProtected(before)
	f.vc.assume(fmt.Sprintf("(>= %s %s)", f.vc.get(f.cur, "next"), oldNext))
	f.assumeRely()
}

// ---- contract application

func (f *Frame) paramNames(ct *FuncContract, fn *ssa.Function, sig *types.Signature) []string {
	if len(ct.Params) > 0 {
		return ct.Params
	}
	var names []string
	if fn != nil && len(fn.Params) > 0 {
		for _, p := range fn.Params {
			names = append(names, p.Name())
		}
		return names
	}
	if sig.Recv() != nil {
		names = append(names, orDefault(sig.Recv().Name(), "recv"))
	}
	for i := 0; i < sig.Params().Len(); i++ {
		names = append(names, orDefault(sig.Params().At(i).Name(), fmt.Sprintf("arg%d", i)))
	}
	return names
}

func (f *Frame) applyContract(ct *FuncContract, fn *ssa.Function, args []Val, c *ssa.CallCommon, pos token.Pos) []Val {
	vc := f.vc
	ct.Used = true
	sig := c.Signature()
	names := f.paramNames(ct, fn, sig)
	pkg := ct.Pkg
	env := &Env{f: nil, vc: vc, p: f.p, pkg: pkg, vars: map[string]Bound{}, state: f.cur, old: f.cur}
	var argTypes []types.Type
	if fn != nil && len(fn.Params) == len(args) {
		for _, p := range fn.Params {
			argTypes = append(argTypes, p.Type())
		}
	} else {
		for _, a := range c.Args {
			argTypes = append(argTypes, a.Type())
		}
		if c.IsInvoke() {
			argTypes = append([]types.Type{c.Value.Type()}, argTypes...)
		}
	}
	for i, n := range names {
		if i < len(args) {
			env.vars[n] = Bound{V: args[i], T: argTypes[i]}
		}
	}
	if ct.Trusted {
		vc.trust("trusted contract: " + pkg + "." + ct.Key)
	}
	callee := pkg + "." + ct.Key
	// preconditions
	for _, r := range ct.Requires {
		t, err := env.evalBool(r.Expr)
		if err != nil {
			vc.unbound = append(vc.unbound, fmt.Sprintf("%s: call %s requires %s: %v", f.key, callee, r.Label, err))
			continue
		}
		lbl := f.label("call", ct.Key+":"+orDefault(r.Label, fmt.Sprintf("L%d", r.Line)))
		f.assertObl("pre", lbl, nil, f.guard, t, f.p.posString(pos))
		vc.assumeG(f.guard, t)
	}
	// implicit lock preconditions
	if fn != nil {
		var conj []string
		for _, il := range f.p.implicitLocks(fn) {
			comp := heldComp(il.structT, il.field)
			vc.regComp(comp, "(Array Int Int)")
			if il.param < len(args) && (f.safety || f.contract != nil) {
				conj = append(conj, fmt.Sprintf("(= (select %s %s) 0)", vc.get(f.cur, comp), args[il.param].T))
				if noLockIfCaller(ct, env) == "false" {
					f.lockOrderCheck(il.structT, il.field, args[il.param].T, pos)
				}
			}
		}
		if len(conj) > 0 {
			// the callee (transitively) acquires these locks on its arguments: none may be held here
			lbl := f.label("lock", ct.Key+":locks-not-held-at-call")
			f.assertObl("lock", lbl, nil, f.guard, or(noLockIfCaller(ct, env), and(conj...)), f.p.posString(pos))
		}
	}
	if fn != nil {
		nolock := noLockIfCaller(ct, env)
		var before *State
		if nolock != "false" {
			before = f.cur.clone()
		}
		for _, il := range f.p.implicitLocks(fn) {
			if mon := f.p.findMonitor(il.structT, il.field); mon != nil && il.param < len(args) {
				f.interfere(mon, il.structT, args[il.param].T)
			}
		}
		if before != nil {
			// no lock taken when the condition holds: no interference either
			f.cur = vc.mergeStates([]*State{before, f.cur}, []string{nolock, not(nolock)})
			env.state = f.cur
		}
	}
	old := f.cur.clone()
	env.old = old
	// frame
	if ct.Pure {
		// nothing changes
	} else if !ct.HasModifies {
		f.havocAllExceptLocals()
	} else {
		for _, m := range ct.Modifies {
			for _, item := range splitTop(m.Text, ',') {
				if err := f.havocItem(env, strings.TrimSpace(item)); err != nil {
					vc.unbound = append(vc.unbound, fmt.Sprintf("%s: call %s modifies %q: %v", f.key, callee, item, err))
					f.havocAllExceptLocals()
				}
			}
		}
		// allocation counter may grow
		oldNext := vc.get(f.cur, "next")
		vc.havocComp(f.cur, "next")
		vc.assume(fmt.Sprintf("(>= %s %s)", vc.get(f.cur, "next"), oldNext))
	}
	env.state = f.cur
	// results
	var res []Val
	memoKey := ""
	var memo []Val
	if ct.Pure && sig.Results().Len() > 0 {
		memoKey = f.pureKey(callee, args)
		memo = f.pureLookup(memoKey, sig.Results().Len())
		if memo != nil {
			vc.trust("pure call " + callee + " repeated with the same arguments in an unchanged state returns the same result (for interface methods: nothing it reads is changed by another goroutine between the two calls)")
		}
	}
	for i := 0; i < sig.Results().Len(); i++ {
		rt := sig.Results().At(i).Type()
		var r Val
		if memo != nil {
			r = memo[i]
		} else {
			r = f.freshVal(fmt.Sprintf("%s_r%d", sanitize(ct.Key), i), rt)
		}
		res = append(res, r)
		env.results = append(env.results, Bound{V: r, T: rt})
	}
	if memoKey != "" && memo == nil {
		f.pureStore(memoKey, res)
	}
	for _, en := range ct.Ensures {
		if mentionsActivationLocal(en.Expr) {
			continue // speaks about the callee's own activation (its sends, its lock acquisitions): not usable by callers
		}
		if strings.HasPrefix(en.Label, "TRUSTED") {
			vc.trust(fmt.Sprintf("assumed postcondition %s#%s: %s", callee, en.Label, en.Text))
		}
		t, err := env.evalBool(en.Expr)
		if err != nil {
			vc.unbound = append(vc.unbound, fmt.Sprintf("%s: call %s ensures %s: %v", f.key, callee, en.Label, err))
			continue
		}
		vc.assumeG(f.guard, t)
	}
	return res
}

func mentionsActivationLocal(e *Expr) bool {
	if e == nil {
		return false
	}
	if e.Op == "call" {
		switch e.Name {
		case "acqof", "acq", "ownsends", "ownsendchan", "ownsendval", "ownsent", "ownspawns", "ownspawnarg", "flag", "lastcall", "selected", "visited":
			return true
		}
	}
	for _, a := range e.Args {
		if mentionsActivationLocal(a) {
			return true
		}
	}
	return false
}

// havocItem havocs one item of a modifies clause in the current state.
func (f *Frame) havocItem(env *Env, item string) error {
	vc := f.vc
	switch {
	case item == "" || item == "nothing":
		return nil
	case item == "*":
		f.havocAllExceptLocals()
		return nil
	case strings.HasPrefix(item, "comp:"):
		c := strings.TrimPrefix(item, "comp:")
		if _, ok := vc.comps[c]; ok {
			vc.havocComp(f.cur, c)
		}
		return nil
	case strings.HasPrefix(item, "ghost:"):
		c := "Ghost_" + strings.TrimPrefix(item, "ghost:")
		if _, ok := vc.comps[c]; !ok {
			if err := f.p.regGhost(vc, env.pkg, strings.TrimPrefix(item, "ghost:")); err != nil {
				return err
			}
		}
		vc.havocComp(f.cur, c)
		return nil
	case strings.HasPrefix(item, "mem(") && strings.HasSuffix(item, ")"):
		ex, err := parseExpr(item[4 : len(item)-1])
		if err != nil {
			return err
		}
		b, err := env.eval(ex)
		if err != nil {
			return err
		}
		st, ok := b.T.Underlying().(*types.Slice)
		if !ok {
			return fmt.Errorf("mem() of non-slice")
		}
		comp := vc.regMem(st.Elem())
		fr := vc.fresh("blk_hv", "(Array Int "+vc.sortOf(st.Elem())+")")
		vc.set(f.cur, comp, store(vc.get(f.cur, comp), "(s-ref "+b.V.T+")", fr))
		return nil
	case strings.HasPrefix(item, "map(") && strings.HasSuffix(item, ")"):
		ex, err := parseExpr(item[4 : len(item)-1])
		if err != nil {
			return err
		}
		b, err := env.eval(ex)
		if err != nil {
			return err
		}
		mt, ok := b.T.Underlying().(*types.Map)
		if !ok {
			return fmt.Errorf("map() of non-map")
		}
		has, val := vc.regMap(mt)
		ks := vc.sortOf(mt.Key())
		vc.set(f.cur, has, store(vc.get(f.cur, has), b.V.T, vc.fresh("has_hv", "(Array "+ks+" Bool)")))
		vc.set(f.cur, val, store(vc.get(f.cur, val), b.V.T, vc.fresh("val_hv", "(Array "+ks+" "+vc.sortOf(mt.Elem())+")")))
		return nil
	case strings.HasPrefix(item, "*"):
		ex, err := parseExpr(item[1:])
		if err != nil {
			return err
		}
		b, err := env.eval(ex)
		if err != nil {
			return err
		}
		pt, ok := b.T.Underlying().(*types.Pointer)
		if !ok {
			return fmt.Errorf("*x of non-pointer")
		}
		if isStruct(pt.Elem()) {
			for _, l := range structLeaves(pt.Elem(), nil) {
				name, ft := vc.regField(pt.Elem(), l.path)
				vc.set(f.cur, name, store(vc.get(f.cur, name), b.V.T, vc.fresh(name+"_hv", vc.sortOf(ft))))
			}
			return nil
		}
		comp := vc.regCell(pt.Elem())
		vc.set(f.cur, comp, store(vc.get(f.cur, comp), b.V.T, vc.fresh("cell_hv", vc.sortOf(pt.Elem()))))
		return nil
	}
	// x.f (location) or T.f (whole component)
	ex, err := parseExpr(item)
	if err != nil {
		return err
	}
	if ex.Op != "sel" {
		return fmt.Errorf("unsupported modifies item")
	}
	if ex.Args[0].Op == "ident" {
		if _, isVar := env.vars[ex.Args[0].Name]; !isVar {
			if t := f.p.lookupType(env.pkg, ex.Args[0].Name); t != nil && isStruct(t) {
				path, ft, ok := findField(t, ex.Name)
				if !ok {
					return fmt.Errorf("no field %s in %s", ex.Name, t)
				}
				if isStruct(ft) {
					for _, l := range structLeaves(ft, nil) {
						n, _ := vc.regField(t, append(append([]int{}, path...), l.path...))
						vc.havocComp(f.cur, n)
					}
				} else {
					n, _ := vc.regField(t, path)
					vc.havocComp(f.cur, n)
				}
				return nil
			}
		}
	}
	b, err := env.eval(ex.Args[0])
	if err != nil {
		return err
	}
	pt, ok := b.T.Underlying().(*types.Pointer)
	if !ok {
		return fmt.Errorf("modifies %s: base is not a pointer", item)
	}
	path, ft, ok := findField(pt.Elem(), ex.Name)
	if !ok {
		return fmt.Errorf("no field %s", ex.Name)
	}
	if isStruct(ft) {
		for _, l := range structLeaves(ft, nil) {
			n, lt := vc.regField(pt.Elem(), append(append([]int{}, path...), l.path...))
			vc.set(f.cur, n, store(vc.get(f.cur, n), b.V.T, vc.fresh(n+"_hv", vc.sortOf(lt))))
		}
		return nil
	}
	n, _ := vc.regField(pt.Elem(), path)
	vc.set(f.cur, n, store(vc.get(f.cur, n), b.V.T, vc.fresh(n+"_hv", vc.sortOf(ft))))
	return nil
}

// modifiesComps: static component names of a modifies clause (for loop havoc sets)
func (f *Frame) modifiesComps(ct *FuncContract, fn *ssa.Function, sig *types.Signature) ([]string, bool) {
	vc := f.vc
	if ct.Pure {
		return nil, false
	}
	if !ct.HasModifies {
		return nil, true
	}
	names := f.paramNames(ct, fn, sig)
	ptypes := map[string]types.Type{}
	if fn != nil {
		for i, p := range fn.Params {
			if i < len(names) {
				ptypes[names[i]] = p.Type()
			}
		}
	} else {
		i := 0
		if sig.Recv() != nil {
			ptypes[names[0]] = sig.Recv().Type()
			i = 1
		}
		for j := 0; j < sig.Params().Len() && i+j < len(names); j++ {
			ptypes[names[i+j]] = sig.Params().At(j).Type()
		}
	}
	out := []string{"next"}
	for _, m := range ct.Modifies {
		for _, item := range splitTop(m.Text, ',') {
			item = strings.TrimSpace(item)
			switch {
			case item == "" || item == "nothing":
			case item == "*":
				return nil, true
			case strings.HasPrefix(item, "comp:"):
				out = append(out, strings.TrimPrefix(item, "comp:"))
			case strings.HasPrefix(item, "ghost:"):
				out = append(out, "Ghost_"+strings.TrimPrefix(item, "ghost:"))
			default:
				inner := item
				kind := "field"
				if strings.HasPrefix(item, "mem(") {
					inner, kind = item[4:len(item)-1], "mem"
				} else if strings.HasPrefix(item, "map(") {
					inner, kind = item[4:len(item)-1], "map"
				} else if strings.HasPrefix(item, "*") {
					inner, kind = item[1:], "deref"
				}
				ex, err := parseExpr(inner)
				if err != nil {
					return nil, true
				}
				t := f.staticType(ex, ptypes, ct.Pkg, kind == "field")
				if t == nil {
					return nil, true
				}
				switch kind {
				case "mem":
					st, ok := t.Underlying().(*types.Slice)
					if !ok {
						return nil, true
					}
					out = append(out, vc.regMem(st.Elem()))
				case "map":
					mt, ok := t.Underlying().(*types.Map)
					if !ok {
						return nil, true
					}
					h, v := vc.regMap(mt)
					out = append(out, h, v)
				case "deref":
					pt, ok := t.Underlying().(*types.Pointer)
					if !ok {
						return nil, true
					}
					if isStruct(pt.Elem()) {
						for _, l := range structLeaves(pt.Elem(), nil) {
							n, _ := vc.regField(pt.Elem(), l.path)
							out = append(out, n)
						}
					} else {
						out = append(out, vc.regCell(pt.Elem()))
					}
				case "field":
					// t is the struct type owning the field
					path, ft, ok := findField(t, ex.Name)
					if !ok {
						return nil, true
					}
					if isStruct(ft) {
						for _, l := range structLeaves(ft, nil) {
							n, _ := vc.regField(t, append(append([]int{}, path...), l.path...))
							out = append(out, n)
						}
					} else {
						n, _ := vc.regField(t, path)
						out = append(out, n)
					}
				}
			}
		}
	}
	return out, false
}

// staticType computes the Go type of a simple contract expression (ident / selector chain) without evaluating it.
// With owner=true it returns the struct type that owns the last selector.
func (f *Frame) staticType(ex *Expr, ptypes map[string]types.Type, pkg string, owner bool) types.Type {
	var typeOf func(e *Expr) types.Type
	typeOf = func(e *Expr) types.Type {
		switch e.Op {
		case "ident":
			if t, ok := ptypes[e.Name]; ok {
				return t
			}
			return nil
		case "sel":
			bt := typeOf(e.Args[0])
			if bt == nil {
				return nil
			}
			if pt, ok := bt.Underlying().(*types.Pointer); ok {
				bt = pt.Elem()
			}
			_, ft, ok := findField(bt, e.Name)
			if !ok {
				return nil
			}
			return ft
		}
		return nil
	}
	if owner {
		if ex.Op != "sel" {
			return nil
		}
		if ex.Args[0].Op == "ident" {
			if _, isVar := ptypes[ex.Args[0].Name]; !isVar {
				if t := f.p.lookupType(pkg, ex.Args[0].Name); t != nil {
					return t
				}
			}
		}
		bt := typeOf(ex.Args[0])
		if bt == nil {
			return nil
		}
		if pt, ok := bt.Underlying().(*types.Pointer); ok {
			bt = pt.Elem()
		}
		return bt
	}
	return typeOf(ex)
}

func (f *Frame) callWrites(c *ssa.CallCommon) ([]string, bool) {
	vc := f.vc
	if b, ok := c.Value.(*ssa.Builtin); ok && !c.IsInvoke() {
		switch b.Name() {
		case "append":
			st := c.Args[0].Type().Underlying().(*types.Slice)
			return []string{"next", vc.regMem(st.Elem())}, false
		case "copy":
			st := c.Args[0].Type().Underlying().(*types.Slice)
			return []string{vc.regMem(st.Elem())}, false
		case "delete":
			h, v := vc.regMap(c.Args[0].Type().Underlying().(*types.Map))
			return []string{h, v}, false
		case "close":
			vc.regComp("ChanClosed", "(Array Int Bool)")
			return []string{"ChanClosed"}, false
		}
		return nil, false
	}
	if c.IsInvoke() {
		if ct := f.p.ifaceContract(c); ct != nil {
			return f.modifiesComps(ct, nil, c.Signature())
		}
		if pureInvoke(c) {
			return nil, false
		}
		return nil, true
	}
	fn := c.StaticCallee()
	if fn == nil {
		if mc, ok := c.Value.(*ssa.MakeClosure); ok {
			fn = mc.Fn.(*ssa.Function)
		} else {
			if ct := f.p.funcTypeContract(c.Value.Type()); ct != nil && ct.Pure {
				return nil, false
			}
			if ts, _, ok := f.dynTargets(c); ok {
				if ct := f.p.contractFor(ts[0]); ct != nil {
					return f.modifiesComps(ct, ts[0], c.Signature())
				}
			}
			return nil, true
		}
	}
	name := fn.String()
	if lk, ok := lockOps[name]; ok {
		_ = lk
		return f.lockWrites(c.Args[0]), false
	}
	if _, ok := libPure[name]; ok {
		return nil, false
	}
	if ct := f.p.contractFor(fn); ct != nil && !ct.Inline {
		cs, all := f.modifiesComps(ct, fn, c.Signature())
		for _, il := range f.p.implicitLocks(fn) {
			if mon := f.p.findMonitor(il.structT, il.field); mon != nil {
				cs = append(cs, f.lockWritesOf(il.structT, mon)...)
			}
		}
		return cs, all
	}
	if _, ok := libSpecial[name]; ok {
		return libSpecialWrites(f, name, c)
	}
	if w, ok := libExtWrites[name]; ok {
		return w(f, c)
	}
	if isEffectFree(name) {
		return []string{"next"}, false
	}
	return nil, true
}

func (f *Frame) goWrites(g *ssa.Go) ([]string, bool) { return nil, false }

// ---- inline execution (closures called in place, deferred closures)

func (f *Frame) inlineCall(fn *ssa.Function, args []Val, bindings []Val) []Val {
	nf := newFrame(f.vc, f.p, fn, f)
	nf.entry = f.entry
	for i, fv := range fn.FreeVars {
		if i < len(bindings) {
			nf.freeVars[fv] = bindings[i]
		}
	}
	res, st, g := nf.run(args, f.cur, f.guard)
	// paths on which the callee panicked or never returned are cut
	f.cur = st
	f.vc.assumeG(f.guard, g)
	return res
}

func (f *Frame) execMakeClosure(x *ssa.MakeClosure) {
	vc := f.vc
	r := vc.allocRef(f.cur, x.Name(), f.guard)
	f.vals[x] = Val{r, "Int"}
	f.closures[x] = x
	fn := x.Fn.(*ssa.Function)
	vc.declareFun("fnid", []string{"Int"}, "Int")
	vc.assume(fmt.Sprintf("(= (fnid %s) %s)", r, f.val(fn).T))
	for i, b := range x.Bindings {
		comp := fmt.Sprintf("Bind_%s_%d", sanitize(f.p.fullKey(fn)), i)
		vc.regComp(comp, "(Array Int "+vc.sortOf(b.Type())+")")
		vc.set(f.cur, comp, store(vc.get(f.cur, comp), r, f.val(b).T))
	}
}

func (f *Frame) callClosure(mc *ssa.MakeClosure, c *ssa.CallCommon, pos token.Pos) []Val {
	fn := mc.Fn.(*ssa.Function)
	var args, binds []Val
	for _, a := range c.Args {
		args = append(args, f.val(a))
	}
	for _, b := range mc.Bindings {
		binds = append(binds, f.val(b))
	}
	if ct := f.p.contractFor(fn); ct != nil && !ct.Inline {
		// closure contract: free variables are addressed by name through the bindings
		return f.applyClosureContract(ct, fn, args, binds, c, pos)
	}
	if fn.Blocks != nil && f.depth < 4 {
		return f.inlineCall(fn, args, binds)
	}
	f.vc.noteUncontracted(f.p.fullKey(fn))
	f.havocAllExceptLocals()
	return f.freshResults(c, fn.Name())
}

func (f *Frame) applyClosureContract(ct *FuncContract, fn *ssa.Function, args, binds []Val, c *ssa.CallCommon, pos token.Pos) []Val {
	// bind free variable names to the *contents* of the captured cells
	saved := map[string]Bound{}
	_ = saved
	return f.applyContractWith(ct, fn, args, c, pos, func(env *Env) {
		for i, fv := range fn.FreeVars {
			if i >= len(binds) {
				break
			}
			pt, ok := fv.Type().Underlying().(*types.Pointer)
			if !ok {
				env.vars[fv.Name()] = Bound{V: binds[i], T: fv.Type()}
				continue
			}
			b := binds[i]
			st := env.state
			el := pt.Elem()
			fvName := fv.Name()
			// evaluated lazily in the state of use: register a lookup
			prev := env.lookup
			env.lookup = func(name string) (Bound, bool) {
				if name == fvName {
					var l Loc
					if isStruct(el) {
						l = Loc{kind: "struct", base: b.T, structT: el, typ: el}
					} else {
						l = Loc{kind: "cell", comp: f.vc.regCell(el), base: b.T, typ: el}
					}
					return Bound{V: f.vc.load(st, l), T: el}, true
				}
				if prev != nil {
					return prev(name)
				}
				return Bound{}, false
			}
		}
	})
}

func (f *Frame) applyContractWith(ct *FuncContract, fn *ssa.Function, args []Val, c *ssa.CallCommon, pos token.Pos, setup func(*Env)) []Val {
	// same as applyContract; closures use read-only captured state (pure closures) in this engine
	vc := f.vc
	ct.Used = true
	sig := c.Signature()
	env := &Env{vc: vc, p: f.p, pkg: ct.Pkg, vars: map[string]Bound{}, state: f.cur, old: f.cur}
	for i, p := range fn.Params {
		if i < len(args) {
			env.vars[p.Name()] = Bound{V: args[i], T: p.Type()}
		}
	}
	setup(env)
	for _, r := range ct.Requires {
		t, err := env.evalBool(r.Expr)
		if err != nil {
			vc.unbound = append(vc.unbound, fmt.Sprintf("%s: call %s requires: %v", f.key, ct.Key, err))
			continue
		}
		lbl := f.label("call", ct.Key+":"+orDefault(r.Label, fmt.Sprintf("L%d", r.Line)))
		f.assertObl("pre", lbl, nil, f.guard, t, f.p.posString(pos))
		vc.assumeG(f.guard, t)
	}
	if !ct.Pure {
		if !ct.HasModifies {
			f.havocAllExceptLocals()
		} else {
			for _, m := range ct.Modifies {
				for _, item := range splitTop(m.Text, ',') {
					if err := f.havocItem(env, strings.TrimSpace(item)); err != nil {
						f.havocAllExceptLocals()
					}
				}
			}
		}
	}
	old := env.state
	env.old = old
	env.state = f.cur
	setup(env)
	var res []Val
	for i := 0; i < sig.Results().Len(); i++ {
		rt := sig.Results().At(i).Type()
		r := f.freshVal(fmt.Sprintf("%s_r%d", sanitize(ct.Key), i), rt)
		res = append(res, r)
		env.results = append(env.results, Bound{V: r, T: rt})
	}
	for _, en := range ct.Ensures {
		t, err := env.evalBool(en.Expr)
		if err != nil {
			vc.unbound = append(vc.unbound, fmt.Sprintf("%s: call %s ensures: %v", f.key, ct.Key, err))
			continue
		}
		vc.assumeG(f.guard, t)
	}
	return res
}

func (f *Frame) dynamicCall(c *ssa.CallCommon, pos token.Pos) []Val {
	vc := f.vc
	// a func value of unknown origin: apply_F contract if declared for the signature's named type, else havoc
	fv := f.val(c.Value)
	f.safe("nilfunc", pos, orDefault(f.exprText(pos, "call"), c.Value.Name()+"()"), fmt.Sprintf("(not (= %s 0))", fv.T))
	if ct := f.p.funcTypeContract(c.Value.Type()); ct != nil {
		var args []Val
		args = append(args, fv)
		for _, a := range c.Args {
			args = append(args, f.val(a))
		}
		return f.applyFuncTypeContract(ct, args, c, pos)
	}
	if r, ok := f.tryDynTargets(c, fv, pos); ok {
		return r
	}
	vc.noteUncontracted("dynamic call " + c.Value.Type().String())
	f.havocAllExceptLocals()
	return f.freshResults(c, "dyn")
}

// funcTypeContract: contract declared for calls through a named func type, key "functype <TypeName>"
func (p *Program) funcTypeContract(t types.Type) *FuncContract {
	n, ok := t.(*types.Named)
	if !ok {
		return nil
	}
	pkg := n.Obj().Pkg()
	if pkg == nil {
		return nil
	}
	if cf, ok := p.contracts[pkg.Name()]; ok {
		if c, ok := cf.Funcs["functype "+n.Obj().Name()]; ok {
			return c
		}
	}
	if p.libs != nil {
		if c, ok := p.libs.Funcs["functype "+pkg.Name()+"."+n.Obj().Name()]; ok {
			return c
		}
	}
	return nil
}

func (f *Frame) applyFuncTypeContract(ct *FuncContract, args []Val, c *ssa.CallCommon, pos token.Pos) []Val {
	vc := f.vc
	ct.Used = true
	sig := c.Signature()
	env := &Env{vc: vc, p: f.p, pkg: ct.Pkg, vars: map[string]Bound{}, state: f.cur, old: f.cur}
	names := ct.Params
	tys := []types.Type{c.Value.Type()}
	for _, a := range c.Args {
		tys = append(tys, a.Type())
	}
	for i, n := range names {
		if i < len(args) {
			env.vars[n] = Bound{V: args[i], T: tys[i]}
		}
	}
	for _, r := range ct.Requires {
		t, err := env.evalBool(r.Expr)
		if err != nil {
			vc.unbound = append(vc.unbound, fmt.Sprintf("%s: functype %s requires: %v", f.key, ct.Key, err))
			continue
		}
		lbl := f.label("call", ct.Key+":"+orDefault(r.Label, fmt.Sprintf("L%d", r.Line)))
		f.assertObl("pre", lbl, nil, f.guard, t, f.p.posString(pos))
	}
	if !ct.Pure {
		f.havocAllExceptLocals()
		env.state = f.cur
	}
	var res []Val
	for i := 0; i < sig.Results().Len(); i++ {
		rt := sig.Results().At(i).Type()
		r := f.freshVal(fmt.Sprintf("%s_r%d", sanitize(ct.Key), i), rt)
		res = append(res, r)
		env.results = append(env.results, Bound{V: r, T: rt})
	}
	for _, en := range ct.Ensures {
		t, err := env.evalBool(en.Expr)
		if err != nil {
			vc.unbound = append(vc.unbound, fmt.Sprintf("%s: functype %s ensures: %v", f.key, ct.Key, err))
			continue
		}
		vc.assumeG(f.guard, t)
	}
	return res
}

// ---- interface method calls

func (p *Program) ifaceContract(c *ssa.CallCommon) *FuncContract {
	t := c.Value.Type()
	name := ""
	pkgName := ""
	if n, ok := t.(*types.Named); ok {
		name = n.Obj().Name()
		if n.Obj().Pkg() != nil {
			pkgName = n.Obj().Pkg().Name()
		}
	}
	if name == "" {
		return nil
	}
	key := name + "." + c.Method.Name()
	if cf, ok := p.contracts[pkgName]; ok {
		if ct, ok := cf.Funcs[key]; ok {
			return ct
		}
	}
	if p.libs != nil {
		if ct, ok := p.libs.Funcs[pkgName+"."+key]; ok {
			return ct
		}
	}
	return nil
}

// hashInvoke: h.Write([]byte(name)); h.Sum64() on a hash.Hash64 is the deterministic function hwhash(name)
func (f *Frame) hashInvoke(c *ssa.CallCommon) ([]Val, bool) {
	if c.Value.Type().String() != "hash.Hash64" {
		return nil, false
	}
	vc := f.vc
	switch c.Method.Name() {
	case "Write":
		return []Val{f.freshVal("hw_n", types.Typ[types.Int]), {"inil", "Iface"}}, true
	case "Sum64":
		// find the (single) Write on the same receiver whose argument is []byte(<string>)
		var src ssa.Value
		n := 0
		for _, ref := range *c.Value.Referrers() {
			call, ok := ref.(*ssa.Call)
			if !ok || !call.Call.IsInvoke() || call.Call.Method.Name() != "Write" {
				continue
			}
			n++
			if cv, ok := call.Call.Args[0].(*ssa.Convert); ok {
				if b, ok := cv.X.Type().Underlying().(*types.Basic); ok && b.Info()&types.IsString != 0 {
					src = cv.X
				}
			}
		}
		if n == 1 && src != nil {
			vc.declareFun("hwhash", []string{"Str"}, "Int")
			vc.axiomOnce("hwhash_range", "(forall ((s Str)) (! (and (<= 0 (hwhash s)) (<= (hwhash s) 18446744073709551615)) :pattern ((hwhash s))))")
			vc.trust("highwayhash: New64(zerokey); Write([]byte(name)); Sum64() is a deterministic function hwhash(name)")
			return []Val{{app("hwhash", f.val(src).T), "Int"}}, true
		}
		return []Val{f.freshVal("sum64", types.Typ[types.Uint64])}, true
	}
	return nil, false
}

func pureInvoke(c *ssa.CallCommon) bool {
	t := c.Value.Type().String()
	m := c.Method.Name()
	switch {
	case t == "error" && m == "Error":
		return true
	case t == "context.Context":
		return true
	case t == "net.Addr":
		return true
	case strings.HasSuffix(t, "logger.ReceptorLogger"):
		return true
	case t == "fmt.Stringer":
		return true
	case t == "hash.Hash" || t == "os.FileInfo" || t == "io/fs.FileInfo" || t == "io/fs.DirEntry" || t == "os.DirEntry":
		return true
	case t == "reflect.Type":
		return true
	}
	return false
}

func (f *Frame) invoke(c *ssa.CallCommon, pos token.Pos) []Val {
	vc := f.vc
	recv := f.val(c.Value)
	f.safe("nil", pos, orDefault(f.exprText(pos, "call"), c.Value.Name()+"."+c.Method.Name()), not(eq(recv.T, "inil")))
	if r, ok := f.hashInvoke(c); ok {
		return r
	}
	if ct := f.p.ifaceContract(c); ct != nil {
		args := []Val{recv}
		for _, a := range c.Args {
			args = append(args, f.val(a))
		}
		return f.applyContract(ct, nil, args, c, pos)
	}
	if pureInvoke(c) {
		// deterministic accessor: uninterpreted function of receiver and args
		sig := c.Signature()
		if sig.Results().Len() == 1 {
			rs := vc.sortOf(sig.Results().At(0).Type())
			sorts := []string{"Iface"}
			ts := []string{recv.T}
			for _, a := range c.Args {
				v := f.val(a)
				sorts = append(sorts, v.S)
				ts = append(ts, v.T)
			}
			fn := "m_" + sanitize(c.Value.Type().String()) + "_" + c.Method.Name()
			vc.declareFun(fn, sorts, rs)
			r := vc.define(c.Method.Name(), Val{app(fn, ts...), rs})
			vc.assume(vc.rangeFact(sig.Results().At(0).Type(), r.T))
			return []Val{r}
		}
		return f.freshResults(c, c.Method.Name())
	}
	vc.noteUncontracted("invoke " + calleeName(c))
	f.havocAllExceptLocals()
	return f.freshResults(c, c.Method.Name())
}

// ---- go / defer

func (f *Frame) execGo(g *ssa.Go) {
	vc := f.vc
	c := &g.Call
	fn := c.StaticCallee()
	if fn == nil {
		if mc, ok := c.Value.(*ssa.MakeClosure); ok {
			fn = mc.Fn.(*ssa.Function)
		}
	}
	name := "dynamic"
	if fn != nil {
		name = f.p.fullKey(fn)
	}
	// ghost: count spawns per callee, remember arguments
	cnt := "Spawn_" + sanitize(name)
	vc.regComp(cnt, "Int")
	n := vc.get(f.cur, cnt)
	for i, a := range c.Args {
		comp := fmt.Sprintf("SpawnArg_%s_%d", sanitize(name), i)
		vc.regComp(comp, "(Array Int "+vc.sortOf(a.Type())+")")
		vc.set(f.cur, comp, store(vc.get(f.cur, comp), n, f.val(a).T))
	}
	vc.set(f.cur, cnt, "(+ "+n+" 1)")
	f.siteCall(c, g.Pos())
}

func (f *Frame) execDefer(d *ssa.Defer) {
	vc := f.vc
	comp := fmt.Sprintf("Defer_%s_b%d_%d", sanitize(f.key), d.Block().Index, indexInBlock(d))
	vc.regComp(comp, "Bool")
	vc.set(f.cur, comp, "true")
	for _, s := range f.defers {
		if s.instr == d {
			return
		}
	}
	f.defers = append(f.defers, &deferSite{instr: d, flag: comp})
}

func indexInBlock(in ssa.Instruction) int {
	for i, x := range in.Block().Instrs {
		if x == in {
			return i
		}
	}
	return -1
}

func (f *Frame) initDeferFlags() {
	for _, b := range f.fn.Blocks {
		for _, in := range b.Instrs {
			if d, ok := in.(*ssa.Defer); ok {
				comp := fmt.Sprintf("Defer_%s_b%d_%d", sanitize(f.key), d.Block().Index, indexInBlock(d))
				f.vc.regComp(comp, "Bool")
				f.vc.set(f.cur, comp, "false")
				for li := range f.loopOf[b.Index] {
					_ = li
					f.vc.abstract(f.key + ": defer inside a loop")
				}
			}
		}
	}
}

func (f *Frame) execRunDefers() {
	vc := f.vc
	// execute in reverse order of registration (registration order follows RPO = execution order)
	for i := len(f.defers) - 1; i >= 0; i-- {
		s := f.defers[i]
		flag := vc.get(f.cur, s.flag)
		if flag == "false" {
			continue
		}
		before := f.cur.clone()
		savedGuard := f.guard
		f.guard = and(savedGuard, flag)
		f.call(&s.instr.Call, s.instr.Pos(), nil)
		f.guard = savedGuard
		if flag != "true" {
			f.cur = vc.mergeStates([]*State{f.cur, before}, []string{flag, not(flag)})
		}
		vc.set(f.cur, s.flag, "false")
	}
}

// ---- locks

type lockOp struct {
	write   bool
	acquire bool
}

var lockOps = map[string]lockOp{
	"(*sync.RWMutex).Lock":    {true, true},
	"(*sync.RWMutex).Unlock":  {true, false},
	"(*sync.RWMutex).RLock":   {false, true},
	"(*sync.RWMutex).RUnlock": {false, false},
	"(*sync.Mutex).Lock":      {true, true},
	"(*sync.Mutex).Unlock":    {true, false},
}

// lockIdent: (struct type, field name, base term) of a lock operand
func (f *Frame) lockIdent(v ssa.Value) (types.Type, string, string, bool) {
	// pointer field: t = *(&x.f) ; value field: &x.f
	if u, ok := v.(*ssa.UnOp); ok && u.Op == token.MUL {
		v = u.X
	}
	fa, ok := v.(*ssa.FieldAddr)
	if !ok {
		return nil, "", "", false
	}
	st := fa.X.Type().Underlying().(*types.Pointer).Elem()
	return st, fieldName(fa), f.val(fa.X).T, true
}

func (f *Frame) lockWrites(v ssa.Value) []string {
	if u, ok := v.(*ssa.UnOp); ok && u.Op == token.MUL {
		v = u.X
	}
	fa, ok := v.(*ssa.FieldAddr)
	if !ok {
		return nil
	}
	st := fa.X.Type().Underlying().(*types.Pointer).Elem()
	comp := heldComp(st, fieldName(fa))
	f.vc.regComp(comp, "(Array Int Int)")
	out := []string{comp}
	if m := f.p.findMonitor(st, fieldName(fa)); m != nil {
		out = append(out, f.lockWritesOf(st, m)...)
	}
	return out
}

func (f *Frame) setFrameBase(comp string) {
	vc := f.vc
	b := "Base_" + comp
	if _, ok := vc.comps[b]; !ok {
		vc.regComp(b, vc.comps[comp].sort)
		vc.assume(eq(vc.get(f.entry, b), vc.get(f.entry, comp)))
	}
	f.cur.comp[b] = vc.get(f.cur, comp)
}

func (p *Program) findMonitor(st types.Type, lock string) *Monitor {
	n, ok := st.(*types.Named)
	if !ok {
		return nil
	}
	pkg := ""
	if n.Obj().Pkg() != nil {
		pkg = n.Obj().Pkg().Name()
	}
	cf, ok := p.contracts[pkg]
	if !ok {
		return nil
	}
	for _, m := range cf.Monitors {
		if m.RecvType == n.Obj().Name() && m.Lock == lock {
			return m
		}
	}
	return nil
}

// monitorDeepComps: components of objects owned by the monitor (contents of protected maps / slices)
func (f *Frame) monitorDeepComps(m *Monitor, st types.Type) []string {
	vc := f.vc
	var out []string
	add := func(t types.Type) {
		switch u := t.Underlying().(type) {
		case *types.Map:
			h, v := vc.regMap(u)
			out = append(out, h, v)
		case *types.Slice:
			out = append(out, vc.regMem(u.Elem()))
		case *types.Pointer:
			if isStruct(u.Elem()) {
				for _, l := range structLeaves(u.Elem(), nil) {
					n, _ := vc.regField(u.Elem(), l.path)
					out = append(out, n)
				}
			}
		}
	}
	for _, pf := range m.Protects {
		_, ft, ok := findField(st, pf)
		if !ok {
			continue
		}
		switch t := ft.Underlying().(type) {
		case *types.Map:
			add(t.Elem()) // objects stored in the protected map belong to the monitor too
		case *types.Slice:
			add(t.Elem())
		}
	}
	return out
}

// lockWritesOf: components havocked when the monitor lock is acquired
func (f *Frame) lockWritesOf(st types.Type, m *Monitor) []string {
	vc := f.vc
	var out []string
	for _, pf := range m.Protects {
		if path, ft, ok := findField(st, pf); ok {
			if isStruct(ft) {
				for _, l := range structLeaves(ft, nil) {
					n, _ := vc.regField(st, append(append([]int{}, path...), l.path...))
					out = append(out, n)
				}
			} else {
				n, _ := vc.regField(st, path)
				out = append(out, n)
				switch t := ft.Underlying().(type) {
				case *types.Map:
					h, v := vc.regMap(t)
					out = append(out, h, v)
				case *types.Slice:
					out = append(out, vc.regMem(t.Elem()))
				}
			}
		}
	}
	return append(out, f.monitorDeepComps(m, st)...)
}

func (f *Frame) lockOp(op lockOp, lockVal ssa.Value, pos token.Pos) {
	vc := f.vc
	st, field, base, ok := f.lockIdent(lockVal)
	if !ok {
		vc.abstract(f.key + ": lock operation on an untracked mutex")
		return
	}
	comp := heldComp(st, field)
	vc.regComp(comp, "(Array Int Int)")
	held := sel(vc.get(f.cur, comp), base)
	check := f.safety || f.contract != nil
	mon := f.p.findMonitor(st, field)
	opname := map[[2]bool]string{{true, true}: "Lock", {true, false}: "Unlock", {false, true}: "RLock", {false, false}: "RUnlock"}[[2]bool{op.write, op.acquire}]
	if op.acquire {
		if check {
			f.noLockIfCallee(pos)
			lbl := f.label("lock", field+":"+opname+":not-held")
			f.assertObl("lock", lbl, nil, f.guard, eq(held, "0"), f.p.posString(pos))
			f.lockOrderCheck(st, field, base, pos)
		}
		vc.assumeG(f.guard, eq(held, "0"))
		nv := "1"
		if op.write {
			nv = "2"
		}
		vc.set(f.cur, comp, store(vc.get(f.cur, comp), base, nv))
		if mon != nil {
			f.monitorAcquire(mon, st, base)
		}
	} else {
		want := "1"
		if op.write {
			want = "2"
		}
		if check {
			lbl := f.label("lock", field+":"+opname+":held")
			f.assertObl("lock", lbl, nil, f.guard, eq(held, want), f.p.posString(pos))
		}
		if mon != nil && op.write {
			f.monitorRelease(mon, st, base, pos)
		}
		vc.set(f.cur, comp, store(vc.get(f.cur, comp), base, "0"))
	}
}

func (f *Frame) monitorEnv(m *Monitor, st types.Type, base string, state, old *State) *Env {
	n := st.(*types.Named)
	env := &Env{vc: f.vc, p: f.p, pkg: n.Obj().Pkg().Name(), vars: map[string]Bound{}, state: state, old: old}
	env.vars[m.RecvName] = Bound{V: Val{base, "Int"}, T: types.NewPointer(st)}
	return env
}

func (f *Frame) monitorAcquire(m *Monitor, st types.Type, base string) {
	f.interfere(m, st, base)
	// remember the state at acquisition for two-state guarantees
	if f.acqState == nil {
		f.acqState = map[string]*State{}
	}
	f.acqState[m.RecvType+"."+m.Lock+"@"+base] = f.cur.clone()
	f.lastAcq = f.acqState[m.RecvType+"."+m.Lock+"@"+base]
}

// interfere: while the lock was free other threads may have changed what it protects, within the
// monitor's invariant (assumed) and its two-state guarantee (the rely of this thread).
func (f *Frame) interfere(m *Monitor, st types.Type, base string) {
	vc := f.vc
	before := f.cur.clone()
	for _, pf := range m.Protects {
		path, ft, ok := findField(st, pf)
		if !ok {
			vc.unbound = append(vc.unbound, fmt.Sprintf("monitor %s.%s: no field %s", m.RecvType, m.Lock, pf))
			continue
		}
		if isStruct(ft) {
			for _, l := range structLeaves(ft, nil) {
				n, lt := vc.regField(st, append(append([]int{}, path...), l.path...))
				vc.set(f.cur, n, store(vc.get(f.cur, n), base, vc.fresh(n+"_acq", vc.sortOf(lt))))
			}
			continue
		}
		n, _ := vc.regField(st, path)
		nv := vc.fresh(n+"_acq", vc.sortOf(ft))
		vc.set(f.cur, n, store(vc.get(f.cur, n), base, nv))
		vc.assume(vc.rangeFact(ft, nv))
		vc.assume(vc.allocatedFact(f.cur, ft, nv))
		// contents of the container the field refers to
		switch t := ft.Underlying().(type) {
		case *types.Map:
			has, val := vc.regMap(t)
			ks := vc.sortOf(t.Key())
			vc.set(f.cur, has, store(vc.get(f.cur, has), nv, vc.fresh("has_acq", "(Array "+ks+" Bool)")))
			vc.set(f.cur, val, store(vc.get(f.cur, val), nv, vc.fresh("val_acq", "(Array "+ks+" "+vc.sortOf(t.Elem())+")")))
		case *types.Slice:
			comp := vc.regMem(t.Elem())
			vc.set(f.cur, comp, store(vc.get(f.cur, comp), "(s-ref "+nv+")", vc.fresh("blk_acq", "(Array Int "+vc.sortOf(t.Elem())+")")))
		}
	}
	for _, c := range f.monitorDeepComps(m, st) {
		if immutableComps[c] {
			continue // nobody writes immutable fields of existing objects
		}
		vc.havocComp(f.cur, c)
	}
	f.restoreOwned(before)
	// environment changes are not this function's writes: re-base the frame
	for _, c := range f.lockWritesOf(st, m) {
		f.setFrameBase(c)
	}
	env := f.monitorEnv(m, st, base, f.cur, before)
	for _, inv := range m.Invs {
		t, err := env.evalBool(inv.Expr)
		if err != nil {
			vc.unbound = append(vc.unbound, fmt.Sprintf("monitor %s.%s inv %s: %v", m.RecvType, m.Lock, inv.Label, err))
			continue
		}
		vc.assumeG(f.guard, t)
	}
	for _, g := range m.Guars {
		t, err := env.evalBool(g.Expr)
		if err != nil {
			vc.unbound = append(vc.unbound, fmt.Sprintf("monitor %s.%s guar %s: %v", m.RecvType, m.Lock, g.Label, err))
			continue
		}
		vc.assumeG(f.guard, t)
	}
}

func (f *Frame) monitorRelease(m *Monitor, st types.Type, base string, pos token.Pos) {
	vc := f.vc
	acq := f.acqState[m.RecvType+"."+m.Lock+"@"+base]
	if acq == nil {
		acq = f.entry
	}
	env := f.monitorEnv(m, st, base, f.cur, acq)
	for _, inv := range m.Invs {
		t, err := env.evalBool(inv.Expr)
		if err != nil {
			continue
		}
		lbl := f.label("monitor", m.Lock+":"+orDefault(inv.Label, fmt.Sprintf("L%d", inv.Line)))
		f.assertObl("monitor", lbl, inv.Tags, f.guard, t, f.p.posString(pos))
	}
	for _, g := range m.Guars {
		t, err := env.evalBool(g.Expr)
		if err != nil {
			vc.unbound = append(vc.unbound, fmt.Sprintf("monitor %s.%s guar %s: %v", m.RecvType, m.Lock, g.Label, err))
			continue
		}
		lbl := f.label("guar", m.Lock+":"+orDefault(g.Label, fmt.Sprintf("L%d", g.Line)))
		f.assertObl("guar", lbl, g.Tags, f.guard, t, f.p.posString(pos))
	}
}

// protected field discipline
func (f *Frame) protectedBy(st types.Type, field string) (*Monitor, bool) {
	n, ok := st.(*types.Named)
	if !ok || n.Obj().Pkg() == nil {
		return nil, false
	}
	cf, ok := f.p.contracts[n.Obj().Pkg().Name()]
	if !ok {
		return nil, false
	}
	for _, m := range cf.Monitors {
		if m.RecvType != n.Obj().Name() {
			continue
		}
		for _, pf := range m.Protects {
			if pf == field {
				return m, true
			}
		}
	}
	return nil, false
}

func (f *Frame) checkProtectedRead(x *ssa.UnOp, l Loc) {
	if !(f.safety || f.contract != nil) || l.kind != "field" || len(l.path) == 0 {
		return
	}
	fname := l.structT.Underlying().(*types.Struct).Field(l.path[0]).Name()
	m, ok := f.protectedBy(l.structT, fname)
	if !ok {
		return
	}
	comp := heldComp(l.structT, m.Lock)
	f.vc.regComp(comp, "(Array Int Int)")
	lbl := f.label("lockset", fname+":read-needs-"+m.Lock)
	f.assertObl("lockset", lbl, nil, f.guard, fmt.Sprintf("(>= (select %s %s) 1)", f.vc.get(f.cur, comp), l.base), f.p.posString(x.Pos()))
}

func (f *Frame) checkProtectedMapRead(x *ssa.Lookup, h Val) {}

func (f *Frame) siteStore(x *ssa.Store, l Loc) {
	if l.kind == "field" && (f.safety || f.contract != nil) {
		if n, _ := fieldComp(l.structT, l.path); immutableComps[n] {
			// declared immutable: may only be written while the object is still private to its constructor
			lbl := f.label("immutable", strings.TrimPrefix(n, "H_")+":written-only-on-fresh-object")
			f.assertObl("immutable", lbl, nil, f.guard, fmt.Sprintf("(>= %s %s)", l.base, f.vc.get(f.rootEntry(), "next")), f.p.posString(x.Pos()))
		}
	}
	if l.kind == "field" && len(l.path) > 0 && (f.safety || f.contract != nil) {
		fname := l.structT.Underlying().(*types.Struct).Field(l.path[0]).Name()
		if m, ok := f.protectedBy(l.structT, fname); ok {
			comp := heldComp(l.structT, m.Lock)
			f.vc.regComp(comp, "(Array Int Int)")
			lbl := f.label("lockset", fname+":write-needs-"+m.Lock)
			f.assertObl("lockset", lbl, nil, f.guard, fmt.Sprintf("(= (select %s %s) 2)", f.vc.get(f.cur, comp), l.base), f.p.posString(x.Pos()))
		}
	}
	if f.contract == nil {
		return
	}
	for _, s := range f.rootContract().Sites {
		if s.Kind != "store" || l.kind != "field" {
			continue
		}
		n, _ := fieldComp(l.structT, l.path)
		tn := ""
		if nt, ok := l.structT.(*types.Named); ok {
			tn = nt.Obj().Name()
		}
		fn := l.structT.Underlying().(*types.Struct).Field(l.path[0]).Name()
		if s.Pattern != tn+"."+fn && s.Pattern != n {
			continue
		}
		env := f.envAt(f.cur, nil)
		env.vars["value"] = Bound{V: f.val(x.Val), T: x.Val.Type()}
		env.vars["base"] = Bound{V: Val{l.base, "Int"}, T: types.NewPointer(l.structT)}
		t, err := env.evalBool(s.Expr)
		if err != nil {
			f.vc.unbound = append(f.vc.unbound, fmt.Sprintf("%s: site store %s: %v", f.key, s.Pattern, err))
			continue
		}
		lbl := f.label("site", "store:"+s.Pattern+":"+orDefault(s.Label, fmt.Sprintf("L%d", s.Line)))
		f.assertObl("site", lbl, s.Tags, f.guard, t, f.p.posString(x.Pos()))
	}
}

func (f *Frame) rootContract() *FuncContract {
	r := f
	for r.parent != nil {
		r = r.parent
	}
	if r.contract == nil {
		return &FuncContract{}
	}
	return r.contract
}

func (f *Frame) siteMapUpdate(x *ssa.MapUpdate, h, k, v Val) {
	// which field does the map come from?
	var fieldPat string
	var baseT types.Type
	var baseTerm string
	if u, ok := x.Map.(*ssa.UnOp); ok && u.Op == token.MUL {
		if fa, ok := u.X.(*ssa.FieldAddr); ok {
			st := fa.X.Type().Underlying().(*types.Pointer).Elem()
			if nt, ok := st.(*types.Named); ok {
				fieldPat = nt.Obj().Name() + "." + fieldName(fa)
				baseT = st
				baseTerm = f.val(fa.X).T
				if m, ok := f.protectedBy(st, fieldName(fa)); ok && (f.safety || f.contract != nil) {
					comp := heldComp(st, m.Lock)
					f.vc.regComp(comp, "(Array Int Int)")
					lbl := f.label("lockset", fieldName(fa)+":mapupdate-needs-"+m.Lock)
					f.assertObl("lockset", lbl, nil, f.guard, fmt.Sprintf("(= (select %s %s) 2)", f.vc.get(f.cur, comp), baseTerm), f.p.posString(x.Pos()))
				}
			}
		}
	}
	defer f.flagEvent("mapupdate:" + fieldPat)
	// a map that is not read from a named field is addressed by its type, e.g. map[string]*ServiceAdvertisement
	typePat := strings.ReplaceAll(types.TypeString(x.Map.Type(), func(p *types.Package) string { return "" }), " ", "")
	// "<pattern>@n" selects the n-th update (in source order) of a map of that type inside this function
	ordPat := ""
	if fieldPat == "" {
		n := 0
		for _, b := range f.fn.Blocks {
			for _, in := range b.Instrs {
				if mu, ok := in.(*ssa.MapUpdate); ok && types.Identical(mu.Map.Type(), x.Map.Type()) && mu.Pos() <= x.Pos() {
					if u, ok := mu.Map.(*ssa.UnOp); ok {
						if _, isField := u.X.(*ssa.FieldAddr); isField {
							continue
						}
					}
					n++
				}
			}
		}
		ordPat = fmt.Sprintf("%s@%d", typePat, n)
	}
	for _, s := range f.rootContract().Sites {
		if s.Kind != "mapupdate" || (s.Pattern != fieldPat && s.Pattern != typePat && s.Pattern != ordPat) {
			continue
		}
		if s.Pattern == typePat && fieldPat != "" {
			continue // a field pattern exists for this update; the type pattern is for maps reached otherwise
		}
		env := f.envAt(f.cur, nil)
		env.vars["key"] = Bound{V: k, T: x.Key.Type()}
		env.vars["value"] = Bound{V: v, T: x.Value.Type()}
		env.vars["themap"] = Bound{V: h, T: x.Map.Type()}
		env.vars["base"] = Bound{V: Val{baseTerm, "Int"}, T: types.NewPointer(baseT)}
		t, err := env.evalBool(s.Expr)
		if err != nil {
			f.vc.unbound = append(f.vc.unbound, fmt.Sprintf("%s: site mapupdate %s: %v", f.key, s.Pattern, err))
			continue
		}
		lbl := f.label("site", "mapupdate:"+s.Pattern+":"+orDefault(s.Label, fmt.Sprintf("L%d", s.Line)))
		f.assertObl("site", lbl, s.Tags, f.guard, t, f.p.posString(x.Pos()))
	}
}

func (f *Frame) siteCall(c *ssa.CallCommon, pos token.Pos) {
	rc := f.rootContract()
	defer f.flagEvent("call:" + shortCallee(c)) // the event takes effect after the site conditions were evaluated
	if c.IsInvoke() {
		if nt, ok := c.Value.Type().(*types.Named); ok {
			defer f.flagEvent("call:" + nt.Obj().Name() + "." + c.Method.Name()) // interface-qualified form
		}
	}
	if len(rc.Sites) == 0 {
		return
	}
	if f.parent != nil && f.fn.Parent() == nil {
		// a helper function executed in place: the site conditions of the enclosing contract speak about the calls
		// written in that function (and in its closures), not about calls inside its helpers
		return
	}
	f.siteCallee = ""
	if fn := c.StaticCallee(); fn != nil {
		f.siteCallee = fn.String()
	} else if c.IsInvoke() {
		f.siteCallee = c.Value.Type().String() + "." + c.Method.Name()
	}
	name := shortCallee(c)
	// "<name>@n": the n-th call (in source order) of that callee inside this function
	ord := 0
	for _, b := range f.fn.Blocks {
		for _, in := range b.Instrs {
			var cc *ssa.CallCommon
			switch x := in.(type) {
			case *ssa.Call:
				cc = &x.Call
			case *ssa.Defer:
				cc = &x.Call
			case *ssa.Go:
				cc = &x.Call
			}
			if cc != nil && shortCallee(cc) == name && in.Pos() <= pos {
				ord++
			}
		}
	}
	ordName := fmt.Sprintf("%s@%d", name, ord)
	for _, s := range rc.Sites {
		if s.Kind != "call" || (s.Pattern != name && s.Pattern != ordName) {
			continue
		}
		env := f.envAt(f.cur, nil)
		for i, a := range c.Args {
			env.vars[fmt.Sprintf("arg%d", i)] = Bound{V: f.val(a), T: a.Type()}
		}
		if c.IsInvoke() {
			env.vars["recv"] = Bound{V: f.val(c.Value), T: c.Value.Type()}
		}
		t, err := env.evalBool(s.Expr)
		if err != nil {
			f.vc.unbound = append(f.vc.unbound, fmt.Sprintf("%s: site call %s: %v", f.key, s.Pattern, err))
			continue
		}
		lbl := f.label("site", "call:"+s.Pattern+":"+orDefault(s.Label, fmt.Sprintf("L%d", s.Line)))
		f.assertObl("site", lbl, s.Tags, f.guard, t, f.p.posString(pos))
	}
}

// checkReturnLocks: every lock is in the state it had at entry (unless the contract says otherwise)
func (f *Frame) checkReturnLocks(r *ssa.Return) {
	if f.parent != nil || !(f.safety || f.contract != nil) {
		return
	}
	var comps []string
	for c := range f.vc.comps {
		if strings.HasPrefix(c, "Held_") {
			comps = append(comps, c)
		}
	}
	sort.Strings(comps)
	var conj []string
	for _, c := range comps {
		cur, ent := f.vc.get(f.cur, c), f.vc.get(f.entry, c)
		if cur == ent {
			continue
		}
		skip := false
		if f.contract != nil {
			for _, a := range append(append([]string{}, f.contract.Acquires...), f.contract.Releases...) {
				if strings.HasSuffix(c, "_"+sanitize(a)) {
					skip = true
				}
			}
		}
		if skip {
			continue
		}
		conj = append(conj, eq(cur, ent))
	}
	if len(conj) > 0 {
		// one obligation per return: every lock is back in its entry state
		lbl := f.label("lock", "all-released-at-return")
		f.assertObl("lock", lbl, nil, f.guard, and(conj...), f.p.posString(r.Pos()))
	}
}

type implicitLock struct {
	param   int
	structT types.Type
	field   string
}

// implicitLocks: locks a function acquires on objects that are its parameters (must not be held by the caller)
func (p *Program) implicitLocksLegacy(fn *ssa.Function) []implicitLock {
	if p.implLocks == nil {
		p.implLocks = map[*ssa.Function][]implicitLock{}
	}
	if r, ok := p.implLocks[fn]; ok {
		return r
	}
	if p.implFrozen || fn.Blocks == nil || !p.isReceptorFunc(fn) {
		return nil
	}
	var out []implicitLock
	seen := map[string]bool{}
	for _, b := range fn.Blocks {
		for _, in := range b.Instrs {
			c, ok := in.(*ssa.Call)
			if !ok {
				continue
			}
			callee := c.Call.StaticCallee()
			if callee == nil {
				continue
			}
			op, ok := lockOps[callee.String()]
			if !ok || !op.acquire {
				continue
			}
			v := c.Call.Args[0]
			if u, ok := v.(*ssa.UnOp); ok && u.Op == token.MUL {
				v = u.X
			}
			fa, ok := v.(*ssa.FieldAddr)
			if !ok {
				continue
			}
			// base must be a parameter (possibly loaded from its escaped cell)
			base := fa.X
			if u, ok := base.(*ssa.UnOp); ok && u.Op == token.MUL {
				if a, ok := u.X.(*ssa.Alloc); ok {
					// find the store of a param into this alloc
					for _, ref := range *a.Referrers() {
						if st, ok := ref.(*ssa.Store); ok && st.Addr == a {
							base = st.Val
						}
					}
				}
			}
			for i, prm := range fn.Params {
				if prm == base {
					st := fa.X.Type().Underlying().(*types.Pointer).Elem()
					k := fmt.Sprintf("%d.%s", i, fieldName(fa))
					if !seen[k] {
						seen[k] = true
						out = append(out, implicitLock{i, st, fieldName(fa)})
					}
				}
			}
		}
	}
	p.implLocks[fn] = out // (also breaks recursion cycles)
	// transitive: locks taken by static callees on objects that are our parameters
	paramOf := func(v ssa.Value) int {
		if u, ok := v.(*ssa.UnOp); ok && u.Op == token.MUL {
			if a, ok := u.X.(*ssa.Alloc); ok {
				for _, ref := range *a.Referrers() {
					if st, ok := ref.(*ssa.Store); ok && st.Addr == a {
						v = st.Val
					}
				}
			}
		}
		for i, prm := range fn.Params {
			if prm == v {
				return i
			}
		}
		return -1
	}
	for _, b := range fn.Blocks {
		for _, in := range b.Instrs {
			var cc *ssa.CallCommon
			switch x := in.(type) {
			case *ssa.Call:
				cc = &x.Call
			case *ssa.Defer:
				cc = &x.Call
			}
			if cc == nil || cc.IsInvoke() {
				continue
			}
			callee := cc.StaticCallee()
			if callee == nil || callee == fn || callee.Blocks == nil || !p.isReceptorFunc(callee) {
				continue
			}
			for _, il := range p.implicitLocks(callee) {
				if il.param >= len(cc.Args) {
					continue
				}
				if i := paramOf(cc.Args[il.param]); i >= 0 {
					k := fmt.Sprintf("%d.%s", i, il.field)
					if !seen[k] {
						seen[k] = true
						out = append(out, implicitLock{i, il.structT, il.field})
					}
				}
			}
		}
	}
	p.implLocks[fn] = out
	return out
}
