package main

import (
	"context"
	"sync"
)

// crossCheck (thorough tier): every obligation one solver discharged is given to the other installed solvers as
// well.  A second `unsat` confirms it; `unknown`/timeout says nothing; a `sat` from any solver withdraws the
// discharge (the obligation then goes through the normal not-discharged path).  Returns how many obligations were
// re-run and how many were confirmed by at least one other solver.
func crossCheck(items []OblResult, timeoutS, seed, par int) (rerun, confirmed, refuted int) {
	var wg sync.WaitGroup
	var mu sync.Mutex
	sem := make(chan struct{}, par)
	for i := range items {
		it := &items[i]
		if it.Obl.Cover || it.Res.Status != "unsat" || it.Res.File == "" {
			continue
		}
		rerun++
		wg.Add(1)
		sem <- struct{}{}
		go func(it *OblResult) {
			defer wg.Done()
			defer func() { <-sem }()
			ok, bad := false, ""
			for _, sp := range solvers {
				if sp.name == it.Res.Solver {
					continue
				}
				st, _ := runSolver(context.Background(), sp, it.Res.File, timeoutS, seed+7)
				if st == "unsat" {
					ok = true
				}
				if st == "sat" {
					bad = sp.name
				}
			}
			mu.Lock()
			defer mu.Unlock()
			if bad != "" {
				refuted++
				it.Res.Status = "sat"
				it.Res.Output = "discharged by " + it.Res.Solver + " but refuted by " + bad + " (thorough cross-check)"
				it.Res.Solver = bad
			} else if ok {
				confirmed++
			}
		}(it)
	}
	wg.Wait()
	return
}
