package main

// Symbolic heap: named components (SMT arrays) with versions.

import (
	"fmt"
	"go/types"
	"os"
	"runtime/debug"
	"sort"
	"strings"
	"sync"
)

var epochMu sync.Mutex
var epochCounter int

func nextEpoch() int {
	epochMu.Lock()
	defer epochMu.Unlock()
	epochCounter++
	if os.Getenv("GOVC_DEBUG") == "epoch" {
		debug.PrintStack()
	}
	return epochCounter
}

type State struct {
	epoch int
	comp  map[string]string
}

func newState() *State { return &State{comp: map[string]string{}} }

func (s *State) clone() *State {
	n := &State{epoch: s.epoch, comp: make(map[string]string, len(s.comp))}
	for k, v := range s.comp {
		n.comp[k] = v
	}
	return n
}

// component registry (per VC)
type compInfo struct {
	sort  string
	elemT types.Type // Go type of the innermost element (for typed-heap axioms)
	depth int        // 1: Array Int E ; 2: Array Int (Array Int E)
}

// typedVersion: every version of a heap component holds values of its Go element type.
func (vc *VC) typedVersion(comp, term string) {
	ci := vc.comps[comp]
	if ci.elemT == nil || !isAtom(term) || vc.declared["typed:"+term] {
		return
	}
	var elem string
	var pat string
	switch ci.depth {
	case 1:
		elem = "(select " + term + " r)"
		pat = "(forall ((r Int)) (! %s :pattern (" + elem + ")))"
	case 2:
		elem = "(select (select " + term + " r) i)"
		pat = "(forall ((r Int) (i Int)) (! %s :pattern (" + elem + ")))"
	default:
		return
	}
	rf := vc.rangeFact(ci.elemT, elem)
	// references stored in the entry heap were allocated before the function started
	if strings.HasSuffix(term, "__e0") {
		vc.declare("next__e0", "Int")
		// (only for objects that exist: cells at unallocated references are unconstrained)
		switch ci.elemT.Underlying().(type) {
		case *types.Pointer, *types.Map, *types.Chan:
			rf = and(rf, "(=> (< r next__e0) (< "+elem+" next__e0))")
		case *types.Slice:
			rf = and(rf, "(=> (< r next__e0) (< (s-ref "+elem+") next__e0))")
		}
	}
	if rf == "true" {
		return
	}
	if b, ok := ci.elemT.Underlying().(*types.Basic); ok {
		switch b.Kind() {
		case types.Int, types.Int64, types.Uint, types.Uint64, types.Uintptr:
			return // 64-bit ranges are not needed as axioms
		}
	}
	vc.declared["typed:"+term] = true
	vc.axiom(fmt.Sprintf(pat, rf))
}

func (vc *VC) regComp(name, sort string) {
	if vc.comps == nil {
		vc.comps = map[string]compInfo{}
	}
	if _, ok := vc.comps[name]; !ok {
		vc.comps[name] = compInfo{sort: sort}
	}
}

func (vc *VC) setElem(name string, t types.Type, depth int) {
	ci := vc.comps[name]
	if ci.elemT == nil {
		ci.elemT, ci.depth = t, depth
		vc.comps[name] = ci
	}
}

func (vc *VC) get(s *State, comp string) string {
	if t, ok := s.comp[comp]; ok {
		return t
	}
	ci, ok := vc.comps[comp]
	if !ok {
		panic("unregistered component " + comp)
	}
	ep := s.epoch
	if isActivationLocal(comp) {
		ep = 0 // activation-local ghosts are never touched by a havoc of "everything": untouched means entry value
	}
	n := fmt.Sprintf("%s__e%d", comp, ep)
	if !vc.declared[n] && ep == 0 && strings.HasPrefix(comp, "Held_") && !vc.locksAtEntry {
		// entry assumption: no lock is held when the function is entered (locks the function takes on its parameters
		// are checked at every call site; a contract that is entered with a lock held says so with requires held(..))
		vc.declare(n, ci.sort)
		vc.axiom(fmt.Sprintf("(forall ((r Int)) (! (= (select %s r) 0) :pattern ((select %s r))))", n, n))
		vc.trust("locks on objects other than the function's parameters are assumed free at function entry")
		return n
	}
	vc.declare(n, ci.sort)
	vc.typedVersion(comp, n)
	return n
}

func (vc *VC) set(s *State, comp, term string) {
	if !isAtom(term) {
		n := vc.fresh(comp, vc.comps[comp].sort)
		vc.assume(eq(n, term))
		term = n
		vc.typedVersion(comp, n)
	}
	s.comp[comp] = term
}

func (vc *VC) havocComp(s *State, comp string) {
	s.comp[comp] = vc.fresh(comp+"_hv", vc.comps[comp].sort)
	vc.typedVersion(comp, s.comp[comp])
}

func (vc *VC) havocAll(s *State) {
	s.epoch = nextEpoch()
	s.comp = map[string]string{}
}

// mergeStates merges states under mutually exclusive edge conditions.
func (vc *VC) mergeStates(states []*State, conds []string) *State {
	if len(states) == 1 {
		return states[0].clone()
	}
	out := newState()
	sameEpoch := true
	for _, s := range states[1:] {
		if s.epoch != states[0].epoch {
			sameEpoch = false
		}
	}
	names := map[string]bool{}
	if sameEpoch {
		out.epoch = states[0].epoch
		for _, s := range states {
			for k := range s.comp {
				names[k] = true
			}
		}
	} else {
		out.epoch = nextEpoch()
		// merge explicitly what is explicit somewhere, what the function itself touches, and activation-local ghosts;
		// any other component is "unknown since some havoc" on at least one side and stays unknown (lazy new epoch)
		for _, s := range states {
			for k := range s.comp {
				names[k] = true
			}
		}
		small := len(vc.comps) <= 160
		for k := range vc.comps {
			if small || vc.prescanSet[k] || isActivationLocal(k) || immutableComps[k] || k == "next" || k == "now" {
				names[k] = true
			}
		}
	}
	var keys []string
	for k := range names {
		keys = append(keys, k)
	}
	sort.Strings(keys)
	for _, k := range keys {
		terms := make([]string, len(states))
		same := true
		for i, s := range states {
			terms[i] = vc.get(s, k)
			if terms[i] != terms[0] {
				same = false
			}
		}
		if same {
			if _, explicit := states[0].comp[k]; explicit || !sameEpoch {
				out.comp[k] = terms[0]
			}
			continue
		}
		t := terms[len(terms)-1]
		for i := len(terms) - 2; i >= 0; i-- {
			t = ite(conds[i], terms[i], t)
		}
		vc.set(out, k, t)
	}
	return out
}

// ---- component naming

func fieldComp(structT types.Type, path []int) (name string, ft types.Type) {
	var parts []string
	t := structT
	for _, i := range path {
		st := t.Underlying().(*types.Struct)
		f := st.Field(i)
		parts = append(parts, sanitize(f.Name()))
		t = f.Type()
	}
	return "H_" + typeKey(structT) + "_" + strings.Join(parts, "_"), t
}

func memComp(elem types.Type) string  { return "Mem_" + typeKey(elem) }
func cellComp(t types.Type) string    { return "Cell_" + typeKey(t) }
func mapHasComp(m *types.Map) string  { return "MapHas_" + typeKey(m.Key()) + "__" + typeKey(m.Elem()) }
func mapValComp(m *types.Map) string  { return "MapVal_" + typeKey(m.Key()) + "__" + typeKey(m.Elem()) }
func globalComp(pkg, name string) string { return "G_" + sanitize(pkg) + "_" + sanitize(name) }

// isLeafStruct: struct types that are treated as opaque leaves
func isOpaqueStruct(t types.Type) bool {
	if n, ok := t.(*types.Named); ok {
		if o := n.Obj(); o != nil && o.Pkg() != nil {
			switch o.Pkg().Path() {
			case "time":
				return o.Name() == "Time"
			}
		}
	}
	return false
}

func isStruct(t types.Type) bool {
	if isOpaqueStruct(t) {
		return false
	}
	_, ok := t.Underlying().(*types.Struct)
	return ok
}

type leaf struct {
	path []int
	t    types.Type
}

func structLeaves(t types.Type, prefix []int) []leaf {
	st := t.Underlying().(*types.Struct)
	var out []leaf
	for i := 0; i < st.NumFields(); i++ {
		p := append(append([]int{}, prefix...), i)
		ft := st.Field(i).Type()
		if isStruct(ft) {
			sub := structLeaves(ft, nil)
			for _, l := range sub {
				out = append(out, leaf{append(append([]int{}, p...), l.path...), l.t})
			}
		} else {
			out = append(out, leaf{p, ft})
		}
	}
	return out
}

// Loc is a static description of an addressable location.
type Loc struct {
	kind    string // field, struct, elem, cell, global, array
	base    string // ref term (field/struct/cell/array), block ref (elem)
	idx     string // elem index
	structT types.Type
	path    []int
	typ     types.Type // pointee type
	comp    string     // for elem/cell/global
}

func (vc *VC) regField(structT types.Type, path []int) (string, types.Type) {
	name, ft := fieldComp(structT, path)
	vc.regComp(name, "(Array Int "+vc.sortOf(ft)+")")
	vc.setElem(name, ft, 1)
	return name, ft
}

func (vc *VC) regMem(elem types.Type) string {
	n := memComp(elem)
	vc.regComp(n, "(Array Int (Array Int "+vc.sortOf(elem)+"))")
	vc.setElem(n, elem, 2)
	return n
}

func (vc *VC) regCell(t types.Type) string {
	n := cellComp(t)
	vc.regComp(n, "(Array Int "+vc.sortOf(t)+")")
	vc.setElem(n, t, 1)
	return n
}

func (vc *VC) regMap(m *types.Map) (has, val string) {
	has, val = mapHasComp(m), mapValComp(m)
	ks := vc.sortOf(m.Key())
	vc.regComp(has, "(Array Int (Array "+ks+" Bool))")
	vc.regComp(val, "(Array Int (Array "+ks+" "+vc.sortOf(m.Elem())+"))")
	return
}

// load reads the value at loc in state s.
func (vc *VC) load(s *State, l Loc) Val {
	switch l.kind {
	case "field":
		_, ft := fieldComp(l.structT, l.path)
		if isStruct(ft) {
			return vc.loadStruct(s, l.structT, l.path, l.base, ft)
		}
		name, _ := vc.regField(l.structT, l.path)
		return Val{sel(vc.get(s, name), l.base), vc.sortOf(ft)}
	case "struct":
		return vc.loadStruct(s, l.structT, nil, l.base, l.structT)
	case "elem":
		return Val{sel(sel(vc.get(s, l.comp), l.base), l.idx), vc.sortOf(l.typ)}
	case "elemfield":
		return vc.loadElemField(s, l)
	case "array":
		return Val{sel(vc.get(s, l.comp), l.base), vc.sortOf(l.typ)}
	case "cell":
		return Val{sel(vc.get(s, l.comp), l.base), vc.sortOf(l.typ)}
	case "global":
		return Val{vc.get(s, l.comp), vc.sortOf(l.typ)}
	}
	panic("load: bad loc " + l.kind)
}

func (vc *VC) loadStruct(s *State, structT types.Type, prefix []int, base string, t types.Type) Val {
	st := t.Underlying().(*types.Struct)
	sortName := vc.sortOf(t)
	var fs []string
	for i := 0; i < st.NumFields(); i++ {
		p := append(append([]int{}, prefix...), i)
		ft := st.Field(i).Type()
		if isStruct(ft) {
			fs = append(fs, vc.loadStruct(s, structT, p, base, ft).T)
		} else {
			name, _ := vc.regField(structT, p)
			fs = append(fs, sel(vc.get(s, name), base))
		}
	}
	if len(fs) == 0 {
		fs = []string{"0"}
	}
	return Val{"(mk_" + sortName + " " + strings.Join(fs, " ") + ")", sortName}
}

func (vc *VC) storeLoc(s *State, l Loc, v Val) {
	switch l.kind {
	case "field":
		_, ft := fieldComp(l.structT, l.path)
		if isStruct(ft) {
			vc.storeStruct(s, l.structT, l.path, l.base, ft, v.T)
			return
		}
		name, _ := vc.regField(l.structT, l.path)
		vc.set(s, name, store(vc.get(s, name), l.base, v.T))
	case "struct":
		vc.storeStruct(s, l.structT, nil, l.base, l.structT, v.T)
	case "elem":
		m := vc.get(s, l.comp)
		vc.set(s, l.comp, store(m, l.base, store(sel(m, l.base), l.idx, v.T)))
	case "elemfield":
		vc.storeElemField(s, l, v)
	case "array", "cell":
		vc.set(s, l.comp, store(vc.get(s, l.comp), l.base, v.T))
	case "global":
		vc.set(s, l.comp, v.T)
	default:
		panic("store: bad loc " + l.kind)
	}
}

func (vc *VC) storeStruct(s *State, structT types.Type, prefix []int, base string, t types.Type, val string) {
	st := t.Underlying().(*types.Struct)
	sortName := vc.sortOf(t)
	for i := 0; i < st.NumFields(); i++ {
		p := append(append([]int{}, prefix...), i)
		f := st.Field(i)
		fv := fmt.Sprintf("(%s_%s %s)", sortName, sanitize(f.Name()), val)
		if isStruct(f.Type()) {
			vc.storeStruct(s, structT, p, base, f.Type(), fv)
		} else {
			name, _ := vc.regField(structT, p)
			vc.set(s, name, store(vc.get(s, name), base, fv))
		}
	}
}

// structField selects a field from a struct value term
func (vc *VC) structField(v Val, t types.Type, i int) Val {
	st := t.Underlying().(*types.Struct)
	f := st.Field(i)
	sn := vc.sortOf(t)
	return Val{fmt.Sprintf("(%s_%s %s)", sn, sanitize(f.Name()), v.T), vc.sortOf(f.Type())}
}

// allocation
func (vc *VC) regNext() { vc.regComp("next", "Int") }

func (vc *VC) allocRef(s *State, prefix string, guard string) string {
	vc.regNext()
	r := vc.fresh(prefix, "Int")
	cur := vc.get(s, "next")
	vc.assume(and(fmt.Sprintf("(> %s 0)", r), fmt.Sprintf("(>= %s %s)", r, cur), fmt.Sprintf("(> %s 0)", cur)))
	vc.set(s, "next", fmt.Sprintf("(+ %s 1)", r))
	return r
}

// allocatedFact: an existing reference is below the allocation counter
func (vc *VC) allocatedFact(s *State, t types.Type, term string) string {
	vc.regNext()
	cur := vc.get(s, "next")
	switch t.Underlying().(type) {
	case *types.Pointer, *types.Map, *types.Chan:
		return fmt.Sprintf("(< %s %s)", term, cur)
	case *types.Slice:
		return fmt.Sprintf("(< (s-ref %s) %s)", term, cur)
	}
	return "true"
}
