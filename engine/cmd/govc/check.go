package main

// check <ID>: decide one property on /repo's current working tree.

import (
	"encoding/json"
	"flag"
	"fmt"
	"os"
	"path/filepath"
	"sort"
	"strconv"
	"strings"
	"sync"
	"time"
)

type LedgerObl struct {
	Name   string `json:"name"`
	Status string `json:"status"` // proved | cover | known-finding:<id>
	Solver string `json:"solver,omitempty"`
	Ms     int64  `json:"ms,omitempty"`
}

type LedgerFunc struct {
	Complete     bool     `json:"complete"`
	Abstracted   bool     `json:"abstracted"`
	Uncontracted []string `json:"uncontracted,omitempty"` // callees without contract on the unchanged tree (havoc)
}

type Ledger struct {
	Property    string                 `json:"property"`
	Schema      int                    `json:"schema,omitempty"` // 2: functions record their callees without contract
	Tree        string                 `json:"tree"`
	Functions   map[string]LedgerFunc  `json:"functions"`
	Obligations []LedgerObl            `json:"obligations"`
	byName      map[string]*LedgerObl
}

type KnownFinding struct {
	ID         string `json:"id"`
	Property   string `json:"property"`
	Status     string `json:"status"` // open | fixed
	Obligation string `json:"obligation"`
	Class      string `json:"class,omitempty"` // contract expression evaluated at the obligation's program point
	Witness    string `json:"witness,omitempty"`
	What       string `json:"what"`
	Commit     string `json:"commit,omitempty"`
}

func verifRoot() string {
	if r := os.Getenv("VERIF_ROOT"); r != "" {
		return r
	}
	exe, err := os.Executable()
	if err == nil {
		return filepath.Dir(filepath.Dir(exe))
	}
	return "/verif"
}

func loadLedger(id string) *Ledger {
	data, err := os.ReadFile(filepath.Join(verifRoot(), "ledger", id+".json"))
	if err != nil {
		return nil
	}
	var l Ledger
	if json.Unmarshal(data, &l) != nil {
		return nil
	}
	l.byName = map[string]*LedgerObl{}
	for i := range l.Obligations {
		l.byName[l.Obligations[i].Name] = &l.Obligations[i]
	}
	return &l
}

func loadKnownFindings() []KnownFinding {
	data, err := os.ReadFile(filepath.Join(verifRoot(), "known_findings.json"))
	if err != nil {
		return nil
	}
	var k []KnownFinding
	json.Unmarshal(data, &k)
	return k
}

type propertyRun struct {
	id      string
	tier    string
	seed    int
	p       *Program
	funcs   []*FuncResult
	items   []OblResult
	lemmaVC *VC
	wall    time.Time
}

func hasTag(tags []string, id string) bool {
	for _, t := range tags {
		if t == id {
			return true
		}
	}
	return false
}

// functionsFor: every contracted function that carries the property tag on itself or on a clause.
func (p *Program) functionsFor(id string) []string {
	var keys []string
	for pkg, cf := range p.contracts {
		for _, k := range cf.FuncOrder {
			ct := cf.Funcs[k]
			if strings.HasPrefix(k, "functype ") || ct.Trusted {
				continue
			}
			if _, isFn := p.funcs[pkg+"."+k]; !isFn {
				continue // iface contracts etc.
			}
			rel := hasTag(ct.Tags, id) || hasTag(ct.SafetyTags, id)
			for _, cs := range [][]*Clause{ct.Ensures, ct.AtRelease, ct.Requires} {
				for _, c := range cs {
					if hasTag(c.Tags, id) {
						rel = true
					}
				}
			}
			for _, s := range ct.Sites {
				if hasTag(s.Tags, id) {
					rel = true
				}
			}
			for _, l := range ct.Loops {
				for _, c := range l.Invariants {
					if hasTag(c.Tags, id) {
						rel = true
					}
				}
			}
			if rel {
				keys = append(keys, pkg+"."+k)
			}
		}
	}
	sort.Strings(keys)
	return keys
}

// unboundContracts: contracts naming functions that do not exist (any more)
func (p *Program) unboundContracts(id string) []string {
	var out []string
	for pkg, cf := range p.contracts {
		for _, k := range cf.FuncOrder {
			ct := cf.Funcs[k]
			if strings.HasPrefix(k, "functype ") || ct.Trusted || strings.Contains(k, " ") {
				continue
			}
			if !hasTag(ct.Tags, id) {
				continue
			}
			if _, ok := p.funcs[pkg+"."+k]; !ok {
				if ct.Extra["iface"] != nil || !strings.Contains(k, ".") && !strings.Contains(k, "(") && false {
					continue
				}
				if isIfaceKey(p, pkg, k) {
					continue
				}
				out = append(out, pkg+"."+k)
			}
		}
	}
	sort.Strings(out)
	return out
}

func isIfaceKey(p *Program, pkg, key string) bool {
	// "Type.Method" where Type is an interface type of the package
	i := strings.Index(key, ".")
	if i <= 0 || strings.HasPrefix(key, "(") {
		return false
	}
	t := p.lookupType(pkg, key[:i])
	if t == nil {
		return false
	}
	_, ok := t.Underlying().(interface{ NumMethods() int })
	return ok
}

type evidence struct {
	PropertyID string                 `json:"property_id"`
	Tier       string                 `json:"tier"`
	Seed       int                    `json:"seed"`
	Level      string                 `json:"level"`
	Coverage   map[string]interface{} `json:"coverage"`
	Assumptions []string              `json:"assumptions"`
	WallS      float64                `json:"wall_s"`
	Violations int                    `json:"violations"`
}

func cmdCheck(args []string) int {
	fs := flag.NewFlagSet("check", flag.ExitOnError)
	repo := fs.String("repo", "/repo", "repository")
	tier := fs.String("tier", "", "quick|thorough")
	bless := fs.Bool("bless", false, "write the ledger from this run (development only)")
	keep := fs.String("keep", "", "keep SMT files here")
	verbose := fs.Bool("v", false, "verbose")
	noEvidence := fs.Bool("no-evidence", false, "do not write the evidence file")
	var id string
	if len(args) > 0 && !strings.HasPrefix(args[0], "-") {
		id = args[0]
		args = args[1:]
	}
	fs.Parse(args)
	if id == "" && fs.NArg() > 0 {
		id = fs.Arg(0)
	}
	if id == "" {
		fmt.Fprintln(os.Stderr, "usage: govc check <ID> [--tier quick|thorough]")
		return 2
	}
	if *tier == "" {
		*tier = os.Getenv("VERIF_TIER")
	}
	if *tier == "" {
		*tier = "quick"
	}
	seed := 0
	if s := os.Getenv("VERIF_SEED"); s != "" {
		seed, _ = strconv.Atoi(s)
	}
	start := time.Now()
	p, err := loadProgram(*repo, receptorPkgs)
	if err != nil {
		fmt.Fprintln(os.Stderr, "load failed:", err)
		// the tree does not build with the hooks on: nothing can be decided; not a property violation
		return 2
	}
	if err := p.loadLibs(); err != nil {
		fmt.Fprintln(os.Stderr, err)
		return 2
	}
	dir := *keep
	if dir == "" {
		dir = scratchDir()
		defer os.RemoveAll(dir)
	}
	timeout := 10
	if *tier == "thorough" {
		timeout = 60
	}
	timeout = scaledTimeout(timeout) // wall-clock limits stretched when the machine is oversubscribed (loadscale.go)
	keys := p.functionsFor(id)
	ledger := loadLedger(id)
	findings := loadKnownFindings()
	wantEnv := map[string]*KnownFinding{}
	for i := range findings {
		if findings[i].Property == id && findings[i].Status == "open" && findings[i].Class != "" {
			wantEnv[findings[i].Obligation] = &findings[i]
		}
	}
	// build VCs in parallel
	results := make([]*FuncResult, len(keys))
	var wg sync.WaitGroup
	var mu sync.Mutex
	_ = mu
	sem := make(chan struct{}, 8)
	for i, k := range keys {
		wg.Add(1)
		sem <- struct{}{}
		go func(i int, k string) {
			defer wg.Done()
			defer func() { <-sem }()
			results[i] = p.verifyFuncWith(k, false, nil, wantEnv)
		}(i, k)
	}
	wg.Wait()
	var items []OblResult
	assumptions := map[string]bool{}
	var abstracted, unbound, uncontracted []string
	setup := false
	for _, r := range results {
		if r.Err != "" {
			fmt.Printf("SETUP-ERROR %s: %s\n", r.Key, r.Err)
			setup = true
			continue
		}
		for _, o := range r.VC.obls {
			if hasTag(o.Tags, id) {
				items = append(items, OblResult{Obl: o, VC: r.VC})
			}
		}
		for a := range r.VC.assumptions {
			assumptions[a] = true
		}
		for _, a := range r.Abstracted {
			abstracted = append(abstracted, a)
		}
		for _, u := range r.Unbound {
			unbound = append(unbound, u)
		}
		for u := range r.VC.uncontracted {
			uncontracted = append(uncontracted, r.Key+" -> "+u)
		}
	}
	// lemmas
	lemmaItems, lemmaAssumptions, lerr := p.lemmaObligations(id)
	if lerr != nil {
		fmt.Printf("SETUP-ERROR lemma: %v\n", lerr)
		setup = true
	}
	items = append(items, lemmaItems...)
	for _, a := range lemmaAssumptions {
		assumptions[a] = true
	}
	// known findings: restrict the obligation to inputs outside the recorded class
	var kfItems []OblResult
	for i := range items {
		if kf, ok := wantEnv[items[i].Obl.Name]; ok && items[i].Obl.ClassTerm != "" {
			o := *items[i].Obl
			o.Name = o.Name + "@outside:" + kf.ID
			o.Extra = append(append([]string{}, o.Extra...), not(o.ClassTerm))
			kfItems = append(kfItems, OblResult{Obl: &o, VC: items[i].VC})
		}
	}
	items = append(items, kfItems...)
	// vacuity twins: the negation of a functional obligation must not be provable as well (that would mean the
	// assumptions at that point are contradictory and everything proved there is void)
	var twins []OblResult
	for i := range items {
		o := items[i].Obl
		switch o.Kind {
		case "ensures", "site", "lemma", "inv-preserve", "monitor", "guar":
			if o.Cover || strings.Contains(o.Name, "@outside:") {
				continue
			}
			if o.Kind == "inv-preserve" && items[i].VC != nil && items[i].VC.noReturnSeen {
				continue // a back edge after os.Exit / log.Fatal is legitimately dead
			}
			if o.Kind == "site" && strings.Contains(o.Name, "#site:site:continue:") {
				continue // one obligation per back edge: edges the compiler keeps but no path takes are legitimately dead
			}
			t := *o
			t.Name = o.Name + "@sanity"
			t.Cond = not(o.Cond)
			t.Cover = true
			t.Kind = "sanity"
			twins = append(twins, OblResult{Obl: &t, VC: items[i].VC})
		}
	}
	items = append(items, twins...)
	dischargeAll(items, dir, timeout, seed, 16)
	// second chance, with little contention and a longer limit, before anything is reported as not discharged
	var retry []OblResult
	var retryIdx []int
	for i := range items {
		if !items[i].Obl.Cover && items[i].Res.Status != "unsat" && items[i].Res.Status != "sat" {
			retry = append(retry, OblResult{Obl: items[i].Obl, VC: items[i].VC})
			retryIdx = append(retryIdx, i)
		}
	}
	if len(retry) > 0 && len(retry) <= 120 {
		// generous second pass: the slowest blessed obligation needs about 20 s on an idle machine (a forall-exists loop
		// invariant); at 3x the first-pass time it failed when the machine was heavily loaded
		dischargeAll(retry, filepath.Join(dir, "retry"), timeout*6, seed+1, 4)
		for j, i := range retryIdx {
			retry[j].Res.Ms += items[i].Res.Ms
			items[i].Res = retry[j].Res
		}
	}
	crossRerun, crossConfirmed, crossRefuted := 0, 0, 0
	if *tier == "thorough" {
		crossRerun, crossConfirmed, crossRefuted = crossCheck(items, 20, seed, 8)
		fmt.Printf("thorough: %d discharged obligations re-run on the other solvers: %d confirmed by a second solver, %d refuted\n", crossRerun, crossConfirmed, crossRefuted)
	}
	sort.SliceStable(items, func(i, j int) bool { return items[i].Obl.Name < items[j].Obl.Name })

	// ---- verdicts
	violations := 0
	discharged := 0
	claimed := 0
	covers := 0
	coversConfirmed := 0
	var perObl []map[string]interface{}
	var undecided []string
	var known []string
	var solverMs int64
	replayDir := filepath.Join(verifRoot(), "replay", id)
	byName := map[string]*OblResult{}
	for i := range items {
		byName[items[i].Obl.Name] = &items[i]
	}
	newLedger := &Ledger{Property: id, Schema: 2, Functions: map[string]LedgerFunc{}}
	funcAllProved := map[string]bool{}
	for _, r := range results {
		if r.Err == "" {
			funcAllProved[r.Key] = true
		}
	}
	for i := range items {
		it := &items[i]
		o := it.Obl
		solverMs += it.Res.Ms
		rec := map[string]interface{}{"name": o.Name, "status": it.Res.Status, "solver": it.Res.Solver, "ms": it.Res.Ms, "vc_bytes": it.Res.VCBytes}
		perObl = append(perObl, rec)
		if strings.Contains(o.Name, "@outside:") {
			continue // handled with its base obligation
		}
		if o.Cover {
			covers++
			switch it.Res.Status {
			case "sat":
				coversConfirmed++
				newLedger.Obligations = append(newLedger.Obligations, LedgerObl{Name: o.Name, Status: "cover"})
			case "unsat":
				if strings.HasSuffix(o.Name, "@sanity") {
					// the negation of the base obligation is provable: vacuity only if the base obligation was proved as well
					// (otherwise the base obligation is simply refuted and is reported on its own)
					if base := byName[strings.TrimSuffix(o.Name, "@sanity")]; base == nil || base.Res.Status != "unsat" {
						continue
					}
					// one obligation per back edge of a loop: a single dead edge is normal (the compiler keeps edges no path
					// takes); only when every back edge of the invariant is dead is the loop body itself unreachable
					if j := strings.Index(o.Name, "@latch"); j >= 0 {
						allDead := true
						for k := range items {
							n2 := items[k].Obl.Name
							if strings.HasPrefix(n2, o.Name[:j]+"@latch") && strings.HasSuffix(n2, "@sanity") && items[k].Res.Status != "unsat" {
								allDead = false
							}
						}
						if !allDead {
							continue
						}
					}
				}
				// contradictory assumptions / unreachable return: everything proved about this function is vacuous
				fmt.Printf("VACUITY %s: assumptions are contradictory (cover obligation unsat)\n", o.Name)
				if ledger != nil && ledger.byName[o.Name] != nil {
					violations++
					path := writeReplayFile(replayDir, o, it, "vacuity: cover obligation became unsatisfiable; proofs of this function are void")
					fmt.Printf("VIOLATION property=%s replay=%s obligation=%s no-failing-input-found\n", id, path, o.Name)
				} else {
					undecided = append(undecided, o.Name+" (vacuous)")
				}
			default:
				newLedger.Obligations = append(newLedger.Obligations, LedgerObl{Name: o.Name, Status: "cover-unconfirmed"})
			}
			continue
		}
		claimed++
		if it.Res.Status == "unsat" {
			discharged++
			newLedger.Obligations = append(newLedger.Obligations, LedgerObl{Name: o.Name, Status: "proved", Solver: it.Res.Solver, Ms: it.Res.Ms})
			continue
		}
		funcAllProved[o.Func] = false
		// known finding?
		if kf, ok := wantEnv[o.Name]; ok {
			if out := byName[o.Name+"@outside:"+kf.ID]; out != nil && out.Res.Status == "unsat" {
				fmt.Printf("KNOWN-FINDING: property=%s %s %s (%s)\n", id, kf.ID, o.Name, kf.What)
				known = append(known, kf.ID+" "+o.Name)
				discharged++ // the restricted obligation (all inputs outside the recorded class) is proved
				newLedger.Obligations = append(newLedger.Obligations, LedgerObl{Name: o.Name, Status: "known-finding:" + kf.ID})
				continue
			}
		}
		if kf := findingWithoutClass(findings, id, o.Name); kf != nil {
			fmt.Printf("KNOWN-FINDING: property=%s %s %s (%s)\n", id, kf.ID, o.Name, kf.What)
			known = append(known, kf.ID+" "+o.Name)
			discharged++
			newLedger.Obligations = append(newLedger.Obligations, LedgerObl{Name: o.Name, Status: "known-finding:" + kf.ID})
			continue
		}
		inLedger := ledger != nil && ledger.byName[o.Name] != nil && (ledger.byName[o.Name].Status == "proved" || strings.HasPrefix(ledger.byName[o.Name].Status, "known-finding"))
		completeFn := ledger != nil && ledger.Functions[o.Func].Complete
		// A contract clause of this function that no longer binds to the code (a local variable it names was renamed,
		// a loop it annotates is gone) removes assumptions the proofs of the function relied on: what then fails is
		// undecided, not a violation.  (A clause that demands a call the function no longer makes is different and is
		// reported below.)
		if ledger != nil {
			stale := ""
			for _, u := range unbound {
				if strings.HasPrefix(u, o.Func+":") && !strings.Contains(u, "no call to ") && !strings.Contains(u, "[every remaining loop is annotated]") {
					// only clauses that provide assumptions matter here (preconditions, loop invariants, rely / owns,
					// contracts of callees); a site condition or postcondition that cannot be evaluated is itself an
					// obligation and takes nothing away from the others
					rest := strings.TrimSpace(strings.TrimPrefix(u, o.Func+":"))
					for _, p := range []string{"loop ", "requires", "assume", "rely", "owns", "call ", "functype", "dyncall", "nolockif", "monitor", "structinv"} {
						if strings.HasPrefix(rest, p) {
							stale = u
						}
					}
				}
			}
			if stale != "" {
				fmt.Printf("UNDECIDED %s (%s; a contract clause of the function does not bind to the current code: %s)\n", o.Name, it.Res.Status, truncate(stale, 160))
				undecided = append(undecided, o.Name+" (stale contract)")
				claimed--
				continue
			}
			// The function now calls code without a contract that it did not call on the unchanged tree (a new helper,
			// a new library call): the effect of that call is unknown to the proofs, so what fails is undecided.
			if lf, ok := ledger.Functions[o.Func]; ok && it.VC != nil && ledger.Schema >= 2 {
				known := map[string]bool{}
				for _, u := range lf.Uncontracted {
					known[u] = true
				}
				newDep := ""
				for u := range it.VC.uncontracted {
					if known[u] {
						continue
					}
					// only code whose effect is entirely unknown excuses a failure: a new function of the repository
					// without a contract, a new call through an interface or a function value.  A new call of a
					// library function changes at most what its arguments reach and yields an arbitrary result;
					// what then fails (e.g. an index into that result) is a failure of the obligation.
					own := strings.HasPrefix(u, "invoke ") || strings.HasPrefix(u, "dynamic call")
					for _, pk := range receptorPkgs {
						if strings.HasPrefix(u, pk+".") {
							own = true
						}
					}
					if own {
						newDep = u
					}
				}
				if newDep != "" {
					fmt.Printf("UNDECIDED %s (%s; the function now calls %s, for which there is no contract)\n", o.Name, it.Res.Status, newDep)
					undecided = append(undecided, o.Name+" (new callee without contract)")
					claimed--
					continue
				}
			}
		}
		if ledger == nil || inLedger || completeFn {
			violations++
			reason := "obligation not discharged (" + it.Res.Status + ")"
			model := ""
			if it.Res.Status == "sat" {
				model = getModel(it.VC, o, dir, it.Res.Solver, seed)
			}
			path, reproduced := p.replay(replayDir, o, it, model, reason)
			suffix := ""
			if !reproduced {
				suffix = " no-failing-input-found"
			}
			fmt.Printf("VIOLATION property=%s replay=%s obligation=%s%s\n", id, path, o.Name, suffix)
		} else {
			fmt.Printf("UNDECIDED %s (%s; new obligation in a function that was not complete on the unchanged tree)\n", o.Name, it.Res.Status)
			undecided = append(undecided, o.Name)
			claimed-- // not part of the claim: listed under undecided_new, never counted as discharged
		}
	}
	// ledger obligations that vanished
	if ledger != nil {
		for _, lo := range ledger.Obligations {
			if lo.Status != "proved" {
				continue
			}
			if _, ok := byName[lo.Name]; !ok {
				// The contract clause behind this obligation speaks about "the last call to X" and the function, which
				// still exists, no longer calls X at all: the call the obligation demands is gone.  That is a failure of
				// the obligation, not a naming problem.
				fkey := lo.Name
				if i := strings.Index(fkey, "#"); i >= 0 {
					fkey = fkey[:i]
				}
				gone := ""
				for _, u := range unbound {
					if strings.HasPrefix(u, fkey+":") && strings.Contains(u, "no call to ") {
						gone = u
					}
				}
				if gone != "" {
					violations++
					o := &Obligation{Name: lo.Name, Kind: "missing", Func: fkey}
					path := writeReplayFile(replayDir, o, nil, "the obligation was discharged on the unchanged tree and can no longer be stated: "+gone)
					fmt.Printf("VIOLATION property=%s replay=%s obligation=%s no-failing-input-found\n", id, path, lo.Name)
					continue
				}
				fmt.Printf("UNDECIDED unbound %s (in the ledger, not generated from the current tree)\n", lo.Name)
				undecided = append(undecided, lo.Name+" (unbound)")
			}
		}
	}
	for _, u := range p.unboundContracts(id) {
		fmt.Printf("UNDECIDED unbound contract %s (function not found in the current tree)\n", u)
		undecided = append(undecided, u+" (unbound contract)")
	}
	for _, u := range unbound {
		fmt.Printf("UNBOUND %s\n", u)
		undecided = append(undecided, u)
	}
	if claimed == 0 && !setup {
		fmt.Printf("SETUP-ERROR no obligations generated for %s\n", id)
		setup = true
	}
	// evidence
	for _, r := range results {
		if r.Err == "" {
			var unc []string
			for u := range r.VC.uncontracted {
				unc = append(unc, u)
			}
			sort.Strings(unc)
			newLedger.Functions[r.Key] = LedgerFunc{Complete: funcAllProved[r.Key], Abstracted: len(r.Abstracted) > 0, Uncontracted: unc}
		}
	}
	if *bless {
		newLedger.Tree = gitHead(*repo)
		os.MkdirAll(filepath.Join(verifRoot(), "ledger"), 0o755)
		data, _ := json.MarshalIndent(newLedger, "", " ")
		os.WriteFile(filepath.Join(verifRoot(), "ledger", id+".json"), data, 0o644)
	}
	var as []string
	for a := range assumptions {
		as = append(as, a)
	}
	as = append(as, "go/ssa (x/tools v0.29.0) lowering is the semantics of the Go source", "int/int64/uint64 arithmetic is mathematical (no 64-bit wrap-around)", "float64 is modelled as real numbers",
		"scheduling: one activation at a time; other threads only through monitor havoc at lock acquisition", "termination is not proved (partial correctness)")
	for _, u := range uncontracted {
		as = append(as, "uncontracted callee (havoc): "+u)
	}
	sort.Strings(as)
	sort.Strings(abstracted)
	var samples []interface{}
	for i, it := range items {
		if i%max(1, len(items)/4) == 0 && len(samples) < 5 {
			samples = append(samples, map[string]interface{}{"obligation": it.Obl.Name, "kind": it.Obl.Kind, "status": it.Res.Status, "solver": it.Res.Solver,
				"goal": truncate("(not "+implies(it.Obl.Guard, it.Obl.Cond)+")", 400)})
		}
	}
	level := "proof"
	expl := ""
	if discharged != claimed || setup {
		level = "other"
		expl = fmt.Sprintf("%d of %d obligations discharged on this run; see per_obligation", discharged, claimed)
	}
	cov := map[string]interface{}{
		"obligations": claimed, "discharged": discharged,
		"checker_cmd":  "./govc check " + id + " --tier " + *tier,
		"trusted_base": []string{"govc VC generator (this repository, /verif/engine)", "go/packages + go/ssa v0.29.0", "z3 4.8.12 / z3 5.1.0 / cvc5 1.0 (portfolio: unsat from any, sat from none)"},
		"functions_under_contract": keys, "per_obligation": perObl, "samples": samples,
		"cover_obligations": covers, "cover_confirmed_sat": coversConfirmed,
		"proved_modulo_abstraction": abstracted, "undecided_new": undecided, "known_findings": known,
		"solver_time_s": float64(solverMs) / 1000.0, "ledger_present": ledger != nil,
		"solver_limit_s": timeout, "second_pass_limit_s": timeout * 6, "load_factor_at_start": loadFactor(),
	}
	if expl != "" {
		cov["explanation"] = expl
	}
	if *tier == "thorough" {
		cov["cross_check"] = map[string]int{"rerun_on_other_solvers": crossRerun, "confirmed_by_second_solver": crossConfirmed, "refuted": crossRefuted}
	}
	p.addBounded(id, *tier, cov, &violations)
	ev := evidence{PropertyID: id, Tier: *tier, Seed: seed, Level: level, Coverage: cov, Assumptions: as, WallS: time.Since(start).Seconds(), Violations: violations}
	if !*noEvidence {
		os.MkdirAll(filepath.Join(verifRoot(), "evidence"), 0o755)
		data, _ := json.MarshalIndent(ev, "", " ")
		os.WriteFile(filepath.Join(verifRoot(), "evidence", id+".json"), data, 0o644)
	}
	if *verbose {
		for _, it := range items {
			fmt.Printf("  %-8s %-7s %6dms %s\n", it.Res.Status, it.Res.Solver, it.Res.Ms, it.Obl.Name)
		}
	}
	fmt.Printf("property %s tier %s: %d/%d obligations discharged, %d cover (%d confirmed), %d violations, %d undecided, %d known findings, %.1fs\n",
		id, *tier, discharged, claimed, covers, coversConfirmed, violations, len(undecided), len(known), time.Since(start).Seconds())
	if violations > 0 {
		return 1
	}
	if setup {
		return 2
	}
	return 0
}

func max(a, b int) int {
	if a > b {
		return a
	}
	return b
}

func findingWithoutClass(fs []KnownFinding, id, obl string) *KnownFinding {
	for i := range fs {
		if fs[i].Property == id && fs[i].Status == "open" && fs[i].Class == "" && fs[i].Obligation == obl {
			return &fs[i]
		}
	}
	return nil
}

func gitHead(repo string) string {
	data, err := os.ReadFile(filepath.Join(repo, ".git", "HEAD"))
	if err != nil {
		return ""
	}
	s := strings.TrimSpace(string(data))
	if strings.HasPrefix(s, "ref: ") {
		d, err := os.ReadFile(filepath.Join(repo, ".git", strings.TrimPrefix(s, "ref: ")))
		if err == nil {
			return strings.TrimSpace(string(d))
		}
	}
	return s
}

func writeReplayFile(dir string, o *Obligation, it *OblResult, reason string) string {
	os.MkdirAll(dir, 0o755)
	path := filepath.Join(dir, truncate(sanitize(o.Name), 150)+".json")
	if it == nil {
		it = &OblResult{}
	}
	rec := map[string]interface{}{"obligation": o.Name, "kind": o.Kind, "position": o.Pos, "reason": reason,
		"solver": it.Res.Solver, "solver_status": it.Res.Status, "solver_output": truncate(it.Res.Output, 4000),
		"goal": truncate("(not "+implies(o.Guard, o.Cond)+")", 4000), "replayed": false}
	data, _ := json.MarshalIndent(rec, "", " ")
	os.WriteFile(path, data, 0o644)
	return path
}
