package main

import (
	"fmt"
	"go/token"
	"go/types"
	"strings"

	"golang.org/x/tools/go/ssa"
)

// immutableComps: heap components of fields declared `immutable T.f` (never written after construction).
var immutableComps = map[string]bool{}

func (p *Program) registerImmutables() error {
	for pkg, cf := range p.contracts {
		for _, spec := range cf.Immutable {
			i := strings.Index(spec, ".")
			if i <= 0 {
				return fmt.Errorf("%s: immutable %q: expected Type.field", cf.Path, spec)
			}
			t := p.lookupType(pkg, spec[:i])
			if t == nil || !isStruct(t) {
				return fmt.Errorf("%s: immutable %q: unknown struct type", cf.Path, spec)
			}
			path, ft, ok := findField(t, spec[i+1:])
			if !ok {
				return fmt.Errorf("%s: immutable %q: no such field", cf.Path, spec)
			}
			if isStruct(ft) {
				for _, l := range structLeaves(ft, nil) {
					n, _ := fieldComp(t, append(append([]int{}, path...), l.path...))
					immutableComps[n] = true
				}
			} else {
				n, _ := fieldComp(t, path)
				immutableComps[n] = true
			}
		}
	}
	return nil
}

// havocKeepOld: a component of an immutable field after unknown code ran: objects that existed before keep their value
func (f *Frame) havocKeepOld(comp, oldTerm, nextBefore string) {
	vc := f.vc
	vc.havocComp(f.cur, comp)
	nv := vc.get(f.cur, comp)
	vc.assume(fmt.Sprintf("(forall ((r Int)) (! (=> (< r %s) (= (select %s r) (select %s r))) :pattern ((select %s r))))", nextBefore, nv, oldTerm, nv))
}

func (f *Frame) rootEntry() *State {
	r := f
	for r.parent != nil {
		r = r.parent
	}
	return r.entry
}

// ---- ghost event flags: `ghostflag <name> set <kind>:<pattern> [clear <kind>:<pattern>]`
// (per-activation booleans set / cleared when this function executes a matching call or map update)

func flagComp(name string) string { return "Own_flag_" + sanitize(name) }

func (f *Frame) flagEvent(ev string) {
	rc := f.rootContract()
	for _, fl := range rc.Flags {
		if len(fl) < 3 {
			continue
		}
		comp := flagComp(fl[0])
		f.vc.regComp(comp, "Bool")
		for i := 1; i+1 < len(fl); i += 2 {
			if fl[i+1] != ev {
				continue
			}
			cur := f.vc.get(f.cur, comp)
			switch fl[i] {
			case "set":
				f.vc.set(f.cur, comp, ite(f.guardLocal(), "true", cur))
			case "clear":
				f.vc.set(f.cur, comp, ite(f.guardLocal(), "false", cur))
			}
		}
	}
}

// guardLocal: "true" — the event happens at the current program point of the current path
func (f *Frame) guardLocal() string { return "true" }

func init() {
	extCalls["flag"] = func(e *Env, x *Expr) (Bound, error) {
		if len(x.Args) != 1 || x.Args[0].Op != "str" {
			return Bound{}, fmt.Errorf("flag(\"name\")")
		}
		comp := flagComp(x.Args[0].Name)
		e.vc.regComp(comp, "Bool")
		return Bound{V: Val{e.vc.get(e.state, comp), "Bool"}, T: nil}, nil
	}
}

// siteDeleteUser: `site delete <Type.field | map type> requires <expr>` with `key` bound to the deleted key
func (f *Frame) siteDeleteUser(c *ssa.CallCommon, h, k Val, pos token.Pos) {
	rc := f.rootContract()
	if rc == nil {
		return
	}
	fieldPat := ""
	if u, ok := c.Args[0].(*ssa.UnOp); ok {
		if fa, ok := u.X.(*ssa.FieldAddr); ok {
			if nt, ok := fa.X.Type().Underlying().(*types.Pointer).Elem().(*types.Named); ok {
				fieldPat = nt.Obj().Name() + "." + fieldName(fa)
			}
		}
	}
	typePat := strings.ReplaceAll(types.TypeString(c.Args[0].Type(), func(p *types.Package) string { return "" }), " ", "")
	if fieldPat != "" {
		defer f.flagEvent("delete:" + fieldPat)
	}
	defer f.flagEvent("delete:" + typePat)
	for _, s := range rc.Sites {
		if s.Kind != "delete" || (s.Pattern != fieldPat && s.Pattern != typePat) {
			continue
		}
		env := f.envAt(f.cur, nil)
		env.vars["key"] = Bound{V: k, T: c.Args[1].Type()}
		env.vars["themap"] = Bound{V: h, T: c.Args[0].Type()}
		t, err := env.evalBool(s.Expr)
		if err != nil {
			f.vc.unbound = append(f.vc.unbound, fmt.Sprintf("%s: site delete %s: %v", f.key, s.Pattern, err))
			continue
		}
		lbl := f.label("site", "delete:"+s.Pattern+":"+s.Label)
		f.assertObl("site", lbl, s.Tags, f.guard, t, f.p.posString(pos))
	}
}

// `ghostflag <name> set <event> iter #n`: the flag belongs to one iteration of loop #n of the function - it is false at
// the start of every iteration (an assignment at the loop head, not an invariant), so that a `site continue #n`
// condition can say "this iteration did X".
func (f *Frame) resetIterFlags(li *loopInfo) {
	rc := f.rootContract()
	if rc == nil || f.contract == nil {
		return
	}
	for _, fl := range rc.Flags {
		for i := 1; i+1 < len(fl); i += 2 {
			if fl[i] == "iter" && fl[i+1] == fmt.Sprintf("#%d", li.ordinal) {
				comp := flagComp(fl[0])
				f.vc.regComp(comp, "Bool")
				f.vc.set(f.cur, comp, "false")
			}
		}
	}
}
