package main

import (
	"fmt"
	"go/types"
	"strings"

	"golang.org/x/tools/go/ssa"
)

// A field of a struct that lives in a slice or array element (&s[i].f): the element is one datatype value in
// Mem_<struct>, so the field is a projection of that value and a store rebuilds the element.

func (f *Frame) elemFieldLoc(a *ssa.FieldAddr) (Loc, bool) {
	var path []int
	var cur ssa.Value = a
	for {
		fa, ok := cur.(*ssa.FieldAddr)
		if !ok {
			break
		}
		path = append([]int{fa.Field}, path...)
		cur = fa.X
	}
	ia, ok := cur.(*ssa.IndexAddr)
	if !ok {
		return Loc{}, false
	}
	el, ok := f.locOf(ia)
	if !ok || el.kind != "elem" || !isStruct(el.typ) {
		return Loc{}, false
	}
	_, ft := fieldComp(el.typ, path)
	return Loc{kind: "elemfield", comp: el.comp, base: el.base, idx: el.idx, structT: el.typ, path: path, typ: ft}, true
}

func (vc *VC) projPath(term string, t types.Type, path []int) string {
	for _, i := range path {
		st := t.Underlying().(*types.Struct)
		term = fmt.Sprintf("(%s_%s %s)", vc.sortOf(t), sanitize(st.Field(i).Name()), term)
		t = st.Field(i).Type()
	}
	return term
}

func (vc *VC) updPath(term string, t types.Type, path []int, v string) string {
	if len(path) == 0 {
		return v
	}
	st := t.Underlying().(*types.Struct)
	sortName := vc.sortOf(t)
	var fs []string
	for i := 0; i < st.NumFields(); i++ {
		fv := fmt.Sprintf("(%s_%s %s)", sortName, sanitize(st.Field(i).Name()), term)
		if i == path[0] {
			fv = vc.updPath(fv, st.Field(i).Type(), path[1:], v)
		}
		fs = append(fs, fv)
	}
	return "(mk_" + sortName + " " + strings.Join(fs, " ") + ")"
}

func (vc *VC) loadElemField(s *State, l Loc) Val {
	el := sel(sel(vc.get(s, l.comp), l.base), l.idx)
	return Val{vc.projPath(el, l.structT, l.path), vc.sortOf(l.typ)}
}

func (vc *VC) storeElemField(s *State, l Loc, v Val) {
	m := vc.get(s, l.comp)
	el := sel(sel(m, l.base), l.idx)
	vc.set(s, l.comp, store(m, l.base, store(sel(m, l.base), l.idx, vc.updPath(el, l.structT, l.path, v.T))))
}
