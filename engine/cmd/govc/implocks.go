package main

import (
	"fmt"
	"go/token"
	"go/types"
	"sort"

	"golang.org/x/tools/go/ssa"
)

// implicitLocks: locks a function (transitively, through static calls) acquires on objects that are its
// parameters; they must not be held by the caller.  Computed once as a fixpoint over the static call graph.
func (p *Program) implicitLocks(fn *ssa.Function) []implicitLock {
	if p.implLocks == nil {
		p.computeImplicitLocks()
	}
	return p.implLocks[fn]
}

func paramIndexOf(fn *ssa.Function, v ssa.Value) int {
	if u, ok := v.(*ssa.UnOp); ok && u.Op == token.MUL {
		if a, ok := u.X.(*ssa.Alloc); ok {
			for _, ref := range *a.Referrers() {
				if st, ok := ref.(*ssa.Store); ok && st.Addr == a {
					v = st.Val
				}
			}
		}
	}
	for i, prm := range fn.Params {
		if prm == v {
			return i
		}
	}
	return -1
}

func (p *Program) computeImplicitLocks() {
	p.implLocks = map[*ssa.Function][]implicitLock{}
	var fns []*ssa.Function
	for _, k := range p.sortedFuncKeys() {
		if fn := p.funcs[k]; fn.Blocks != nil {
			fns = append(fns, fn)
		}
	}
	has := map[*ssa.Function]map[string]bool{}
	add := func(fn *ssa.Function, il implicitLock) bool {
		k := fmt.Sprintf("%d.%s.%s", il.param, types.TypeString(il.structT, nil), il.field)
		if has[fn] == nil {
			has[fn] = map[string]bool{}
		}
		if has[fn][k] {
			return false
		}
		has[fn][k] = true
		p.implLocks[fn] = append(p.implLocks[fn], il)
		return true
	}
	type callEdge struct {
		callee *ssa.Function
		args   []ssa.Value
	}
	calls := map[*ssa.Function][]callEdge{}
	for _, fn := range fns {
		for _, b := range fn.Blocks {
			for _, in := range b.Instrs {
				var cc *ssa.CallCommon
				switch x := in.(type) {
				case *ssa.Call:
					cc = &x.Call
				case *ssa.Defer:
					cc = &x.Call
				}
				if cc == nil || cc.IsInvoke() {
					continue
				}
				callee := cc.StaticCallee()
				if callee == nil {
					continue
				}
				if op, ok := lockOps[callee.String()]; ok {
					if !op.acquire {
						continue
					}
					v := cc.Args[0]
					if u, ok := v.(*ssa.UnOp); ok && u.Op == token.MUL {
						v = u.X
					}
					fa, ok := v.(*ssa.FieldAddr)
					if !ok {
						continue
					}
					if i := paramIndexOf(fn, fa.X); i >= 0 {
						add(fn, implicitLock{i, fa.X.Type().Underlying().(*types.Pointer).Elem(), fieldName(fa)})
					}
					continue
				}
				if callee != fn && callee.Blocks != nil && p.isReceptorFunc(callee) {
					calls[fn] = append(calls[fn], callEdge{callee, cc.Args})
				}
			}
		}
	}
	for changed := true; changed; {
		changed = false
		for _, fn := range fns {
			for _, e := range calls[fn] {
				for _, il := range p.implLocks[e.callee] {
					if il.param >= len(e.args) {
						continue
					}
					if i := paramIndexOf(fn, e.args[il.param]); i >= 0 {
						if add(fn, implicitLock{i, il.structT, il.field}) {
							changed = true
						}
					}
				}
			}
		}
	}
	for fn := range p.implLocks {
		ls := p.implLocks[fn]
		sort.Slice(ls, func(i, j int) bool {
			if ls[i].param != ls[j].param {
				return ls[i].param < ls[j].param
			}
			return ls[i].field < ls[j].field
		})
	}
}
