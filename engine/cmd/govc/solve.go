package main

import (
	"bytes"
	"context"
	"fmt"
	"os"
	"os/exec"
	"path/filepath"
	"strings"
	"sync"
	"time"
)

type SolveResult struct {
	Status  string // unsat sat unknown timeout error
	Solver  string
	Ms      int64
	Output  string
	Model   string
	VCBytes int
	File    string
}

func (vc *VC) emit(o *Obligation, withModel bool) string {
	var b strings.Builder
	b.WriteString(prelude)
	for _, d := range vc.decls {
		if d == "" {
			continue
		}
		b.WriteString(d)
		b.WriteByte('\n')
	}
	b.WriteString(vc.distinctLits())
	for _, f := range vc.facts[:o.FactIdx] {
		b.WriteString("(assert ")
		b.WriteString(f)
		b.WriteString(")\n")
	}
	for _, f := range o.Extra {
		b.WriteString("(assert ")
		b.WriteString(f)
		b.WriteString(")\n")
	}
	fmt.Fprintf(&b, "; obligation %s\n", o.Name)
	b.WriteString("(assert (not " + implies(o.Guard, o.Cond) + "))\n")
	b.WriteString("(check-sat)\n")
	if withModel {
		b.WriteString("(get-model)\n")
	}
	return b.String()
}

type solverSpec struct {
	name string
	args func(file string, timeoutS int, seed int) []string
}

var solvers = []solverSpec{
	{"z3-new", func(f string, t, seed int) []string {
		return []string{"z3-new", fmt.Sprintf("-T:%d", t), fmt.Sprintf("smt.random_seed=%d", seed), f}
	}},
	{"z3", func(f string, t, seed int) []string {
		return []string{"z3", fmt.Sprintf("-T:%d", t), fmt.Sprintf("smt.random_seed=%d", seed), f}
	}},
	{"cvc5", func(f string, t, seed int) []string {
		return []string{"cvc5", fmt.Sprintf("--tlimit=%d", t*1000), fmt.Sprintf("--seed=%d", seed), f}
	}},
}

func runSolver(ctx context.Context, sp solverSpec, file string, timeoutS, seed int) (status, out string) {
	args := sp.args(file, timeoutS, seed)
	cmd := exec.CommandContext(ctx, args[0], args[1:]...)
	var buf bytes.Buffer
	cmd.Stdout = &buf
	cmd.Stderr = &buf
	_ = cmd.Run()
	out = buf.String()
	first := strings.TrimSpace(strings.SplitN(out, "\n", 2)[0])
	switch first {
	case "unsat", "sat", "unknown", "timeout":
		return first, out
	}
	if ctx.Err() != nil {
		return "cancelled", out
	}
	return "error", out
}

// solve runs the portfolio on one SMT file.
func solve(file string, timeoutS, seed int, all bool) SolveResult {
	start := time.Now()
	ctx, cancel := context.WithCancel(context.Background())
	defer cancel()
	type ans struct {
		solver, status, out string
	}
	ch := make(chan ans, len(solvers))
	launch := func(sp solverSpec) {
		go func() {
			st, out := runSolver(ctx, sp, file, timeoutS, seed)
			ch <- ans{sp.name, st, out}
		}()
	}
	launch(solvers[0])
	launched := 1
	stage := time.NewTimer(1500 * time.Millisecond)
	defer stage.Stop()
	var last ans
	got := 0
	for got < len(solvers) {
		select {
		case a := <-ch:
			got++
			if a.status == "unsat" || a.status == "sat" {
				return SolveResult{Status: a.status, Solver: a.solver, Ms: time.Since(start).Milliseconds(), Output: a.out, File: file}
			}
			if last.status == "" || a.status == "unknown" || a.status == "timeout" {
				last = a
			}
			if launched < len(solvers) && got == launched {
				for _, sp := range solvers[launched:] {
					launch(sp)
				}
				launched = len(solvers)
			}
		case <-stage.C:
			if launched < len(solvers) {
				for _, sp := range solvers[launched:] {
					launch(sp)
				}
				launched = len(solvers)
			}
		}
	}
	st := last.status
	if st == "" || st == "cancelled" {
		st = "unknown"
	}
	return SolveResult{Status: st, Solver: last.solver, Ms: time.Since(start).Milliseconds(), Output: last.out, File: file}
}

// getModel re-runs a sat query with (get-model) on the solver that answered.
func getModel(vc *VC, o *Obligation, dir string, solver string, seed int) string {
	file := filepath.Join(dir, sanitize(o.Name)+".model.smt2")
	os.WriteFile(file, []byte(vc.emit(o, true)), 0o644)
	for _, sp := range solvers {
		if sp.name != solver {
			continue
		}
		_, out := runSolver(context.Background(), sp, file, 20, seed)
		return out
	}
	return ""
}

type OblResult struct {
	Obl *Obligation
	VC  *VC
	Res SolveResult
}

// dischargeAll solves all obligations in parallel.
func dischargeAll(items []OblResult, dir string, timeoutS, seed, par int) {
	os.MkdirAll(dir, 0o755)
	var wg sync.WaitGroup
	sem := make(chan struct{}, par)
	for i := range items {
		wg.Add(1)
		sem <- struct{}{}
		go func(it *OblResult, idx int) {
			defer wg.Done()
			defer func() { <-sem }()
			var txt string
			if it.Obl.Kind == "cover" || os.Getenv("GOVC_NOSLICE") != "" {
				txt = it.VC.emit(it.Obl, false)
			} else {
				txt = it.VC.emitSliced(it.Obl, false)
			}
			file := filepath.Join(dir, fmt.Sprintf("%04d_%s.smt2", idx, truncate(sanitize(it.Obl.Name), 120)))
			os.WriteFile(file, []byte(txt), 0o644)
			t := timeoutS
			if it.Obl.Cover && t > 3 {
				t = 3
			}
			it.Res = solve(file, t, seed, false)
			it.Res.VCBytes = len(txt)
		}(&items[i], i)
	}
	wg.Wait()
}
