package main

import (
	"bytes"
	"fmt"
	"go/ast"
	"go/printer"
	"go/token"
	"go/types"
	"os"
	"path/filepath"
	"sort"
	"strings"

	"golang.org/x/tools/go/ast/astutil"
	"golang.org/x/tools/go/packages"
	"golang.org/x/tools/go/ssa"
	"golang.org/x/tools/go/ssa/ssautil"
)

var receptorPkgs = []string{"netceptor", "framer", "backends", "utils", "controlsvc", "workceptor", "certificates", "tickrunner", "types", "services", "randstr", "logger"}

type Program struct {
	repo      string
	fset      *token.FileSet
	pkgs      map[string]*packages.Package // by short name
	ssaProg   *ssa.Program
	ssaPkgs   map[string]*ssa.Package
	contracts map[string]*ContractFile
	libs      *ContractFile // trusted library specs
	funcs     map[string]*ssa.Function // "pkg.key"
	files     map[string]*ast.File     // filename -> ast
	implLocks map[*ssa.Function][]implicitLock
	implFrozen bool
}

func loadProgram(repo string, want []string) (*Program, error) {
	p := &Program{repo: repo, pkgs: map[string]*packages.Package{}, ssaPkgs: map[string]*ssa.Package{},
		contracts: map[string]*ContractFile{}, funcs: map[string]*ssa.Function{}, files: map[string]*ast.File{}}
	var patterns []string
	for _, n := range want {
		patterns = append(patterns, "./pkg/"+n)
	}
	cfg := &packages.Config{
		Mode:       packages.LoadSyntax,
		Dir:        repo,
		BuildFlags: []string{"-tags=verif"},
		Env:        append(os.Environ(), "GOFLAGS=-mod=mod", "GOPROXY=off", "GOSUMDB=off", "GOTOOLCHAIN=local"),
	}
	pkgs, err := packages.Load(cfg, patterns...)
	if err != nil {
		return nil, err
	}
	var errs []string
	for _, pk := range pkgs {
		for _, e := range pk.Errors {
			errs = append(errs, e.Error())
		}
	}
	if len(errs) > 0 {
		return nil, fmt.Errorf("load errors:\n%s", strings.Join(errs, "\n"))
	}
	prog, spkgs := ssautil.Packages(pkgs, ssa.GlobalDebug|ssa.BareInits)
	p.ssaProg = prog
	for i, pk := range pkgs {
		if spkgs[i] == nil {
			return nil, fmt.Errorf("no ssa package for %s", pk.PkgPath)
		}
		spkgs[i].Build()
		short := pk.Name
		p.pkgs[short] = pk
		p.ssaPkgs[short] = spkgs[i]
		if p.fset == nil {
			p.fset = pk.Fset
		}
		for _, f := range pk.Syntax {
			p.files[pk.Fset.Position(f.Pos()).Filename] = f
		}
	}
	for short, sp := range p.ssaPkgs {
		for fn := range ssautil.AllFunctions(prog) {
			if fn.Pkg != sp {
				continue
			}
			if fn.Synthetic != "" && !strings.Contains(fn.Synthetic, "package initializer") {
				// wrappers/thunks
				if fn.Blocks == nil || strings.HasPrefix(fn.Synthetic, "wrapper") || strings.HasPrefix(fn.Synthetic, "bound") || strings.HasPrefix(fn.Synthetic, "thunk") {
					continue
				}
			}
			p.funcs[short+"."+funcKey(fn)] = fn
		}
	}
	p.computeImplicitLocks()
	// contract files
	for short := range p.pkgs {
		cp := contractPath(repo, short)
		if _, err := os.Stat(cp); err == nil {
			cf, err := parseContractFile(cp, short)
			if err != nil {
				return nil, err
			}
			p.contracts[short] = cf
		}
	}
	if err := p.registerImmutables(); err != nil {
		return nil, err
	}
	return p, nil
}

func funcKey(fn *ssa.Function) string {
	if fn.Pkg != nil {
		return fn.RelString(fn.Pkg.Pkg)
	}
	return fn.String()
}

func (p *Program) pkgShort(fn *ssa.Function) string {
	if fn.Pkg != nil {
		return fn.Pkg.Pkg.Name()
	}
	if fn.Parent() != nil {
		return p.pkgShort(fn.Parent())
	}
	return ""
}

func (p *Program) fullKey(fn *ssa.Function) string {
	if fn.Pkg == nil && fn.Parent() != nil {
		// closures: RelString needs the package
		return p.pkgShort(fn) + "." + fn.RelString(rootPkg(fn))
	}
	return p.pkgShort(fn) + "." + funcKey(fn)
}

func rootPkg(fn *ssa.Function) *types.Package {
	for fn.Parent() != nil {
		fn = fn.Parent()
	}
	if fn.Pkg != nil {
		return fn.Pkg.Pkg
	}
	return nil
}

// contractFor finds the contract of an ssa function (receptor or library).
func (p *Program) contractFor(fn *ssa.Function) *FuncContract {
	if fn == nil {
		return nil
	}
	short := p.pkgShort(fn)
	if cf, ok := p.contracts[short]; ok && (fn.Pkg != nil || fn.Parent() != nil) {
		if rp := rootPkg(fn); rp != nil {
			if _, mine := p.pkgs[rp.Name()]; mine && p.pkgs[rp.Name()].Types == rp {
				key := fn.RelString(rp)
				if c, ok := cf.Funcs[key]; ok {
					return c
				}
				return nil
			}
		}
	}
	if p.libs != nil {
		// library key: full path-qualified name, e.g. "encoding/binary.littleEndian.Uint16" or "(*sync.RWMutex).Lock"
		if c, ok := p.libs.Funcs[fn.String()]; ok {
			return c
		}
	}
	return nil
}

func (p *Program) isReceptorFunc(fn *ssa.Function) bool {
	rp := rootPkg(fn)
	if rp == nil {
		return false
	}
	pk, ok := p.pkgs[rp.Name()]
	return ok && pk.Types == rp
}

// srcText returns the source text of the innermost AST node of one of the wanted kinds that contains pos.
func (p *Program) srcText(pos token.Pos, want func(ast.Node) bool) string {
	if !pos.IsValid() {
		return ""
	}
	fname := p.fset.Position(pos).Filename
	f := p.files[fname]
	if f == nil {
		return ""
	}
	path, _ := astutil.PathEnclosingInterval(f, pos, pos)
	for _, n := range path {
		if want(n) {
			var buf bytes.Buffer
			printer.Fprint(&buf, p.fset, n)
			s := buf.String()
			s = strings.Join(strings.Fields(s), " ")
			return truncate(s, 80)
		}
	}
	return ""
}

func (p *Program) posString(pos token.Pos) string {
	if !pos.IsValid() {
		return ""
	}
	ps := p.fset.Position(pos)
	rel, err := filepath.Rel(p.repo, ps.Filename)
	if err != nil {
		rel = ps.Filename
	}
	return fmt.Sprintf("%s:%d", rel, ps.Line)
}

func (p *Program) sortedFuncKeys() []string {
	var ks []string
	for k := range p.funcs {
		ks = append(ks, k)
	}
	sort.Strings(ks)
	return ks
}

// lookupType resolves a type name used in a contract ("MessageData", "*connInfo", "string", "time.Time").
func (p *Program) lookupType(pkgShort, name string) types.Type {
	name = strings.TrimSpace(name)
	if strings.HasPrefix(name, "*") {
		t := p.lookupType(pkgShort, name[1:])
		if t == nil {
			return nil
		}
		return types.NewPointer(t)
	}
	if strings.HasPrefix(name, "[]") {
		t := p.lookupType(pkgShort, name[2:])
		if t == nil {
			return nil
		}
		return types.NewSlice(t)
	}
	switch name {
	case "int":
		return types.Typ[types.Int]
	case "int64":
		return types.Typ[types.Int64]
	case "uint64":
		return types.Typ[types.Uint64]
	case "uint16":
		return types.Typ[types.Uint16]
	case "uint32":
		return types.Typ[types.Uint32]
	case "byte", "uint8":
		return types.Typ[types.Uint8]
	case "string":
		return types.Typ[types.String]
	case "bool":
		return types.Typ[types.Bool]
	case "float64":
		return types.Typ[types.Float64]
	case "error":
		return types.Universe.Lookup("error").Type()
	case "any":
		return types.NewInterfaceType(nil, nil)
	}
	if i := strings.Index(name, "."); i > 0 {
		pk, ok := p.pkgs[name[:i]]
		if ok {
			if o := pk.Types.Scope().Lookup(name[i+1:]); o != nil {
				return o.Type()
			}
		}
		// imported package of pkgShort
		if cur, ok := p.pkgs[pkgShort]; ok {
			for _, imp := range cur.Types.Imports() {
				if imp.Name() == name[:i] {
					if o := imp.Scope().Lookup(name[i+1:]); o != nil {
						return o.Type()
					}
				}
			}
		}
		return nil
	}
	if pk, ok := p.pkgs[pkgShort]; ok {
		if o := pk.Types.Scope().Lookup(name); o != nil {
			if tn, ok := o.(*types.TypeName); ok {
				return tn.Type()
			}
		}
	}
	return nil
}
