package main

import (
	"fmt"
	"go/token"

	"golang.org/x/tools/go/ssa"
)

// nolockif <expr> (function contract, over the parameters): when the condition holds at a call the function takes
// no lock at all.  Callers then need not have the function's locks free and see no interference from the call; the
// function itself proves at each of its lock acquisitions that the condition was false on entry.

func (f *Frame) noLockIfCallee(pos token.Pos) {
	r := f.root()
	if r.contract == nil || len(r.contract.Extra["nolockif"]) == 0 {
		return
	}
	env := r.envAt(r.entry, nil)
	for _, c := range r.contract.Extra["nolockif"] {
		t, err := env.evalBool(c.Expr)
		if err != nil {
			f.vc.unbound = append(f.vc.unbound, fmt.Sprintf("%s: nolockif: %v", f.key, err))
			continue
		}
		lbl := f.label("lock", "nolockif:acquire-only-when-allowed")
		f.assertObl("lock", lbl, nil, f.guard, not(t), f.p.posString(pos))
	}
}

// noLockIfCaller: the condition under which the callee takes no lock, evaluated over the actual arguments ("false"
// when the callee declares none).
func noLockIfCaller(ct *FuncContract, env *Env) string {
	if ct == nil || len(ct.Extra["nolockif"]) == 0 {
		return "false"
	}
	var ts []string
	for _, c := range ct.Extra["nolockif"] {
		t, err := env.evalBool(c.Expr)
		if err != nil {
			return "false"
		}
		ts = append(ts, t)
	}
	if len(ts) == 1 {
		return ts[0]
	}
	return "(or " + joinSp(ts) + ")"
}

func joinSp(ts []string) string {
	out := ""
	for i, t := range ts {
		if i > 0 {
			out += " "
		}
		out += t
	}
	return out
}

// safetyKindWanted: "safety k1 k2 ..." in the root contract restricts the implicit no-panic obligations to those kinds
// (index, slice, nil, assert, close, send, div, nilfunc, nilmap ...); the other checks are still assumed to pass.
func (f *Frame) safetyKindWanted(kind string) bool {
	r := f.root()
	if r.contract == nil || len(r.contract.SafetyKinds) == 0 {
		return true
	}
	for _, k := range r.contract.SafetyKinds {
		if k == kind {
			return true
		}
	}
	return false
}

// smallHelper: a function of the repository without a contract that is small, loop-free, does not defer, spawn or
// select, and is not already being executed in this chain of inlined calls.
func (f *Frame) smallHelper(fn *ssa.Function) bool {
	if fn == nil || fn.Blocks == nil || len(fn.Blocks) > 10 || f.depth >= 3 {
		return false
	}
	n := 0
	for _, b := range fn.Blocks {
		for _, s := range b.Succs {
			if s.Dominates(b) {
				return false // a loop
			}
		}
		for _, in := range b.Instrs {
			n++
			switch in.(type) {
			case *ssa.Defer, *ssa.Go, *ssa.Select, *ssa.RunDefers:
				return false
			}
		}
	}
	if n > 80 {
		return false
	}
	for x := f; x != nil; x = x.parent {
		if x.fn == fn {
			return false
		}
	}
	return true
}

// varargElems: the values stored into a variadic argument slice that is built right at the call site
// (new [n]T; &t[i] = v ...; slice t[:]).
func varargElems(x ssa.Value) ([]ssa.Value, bool) {
	sl, ok := x.(*ssa.Slice)
	if !ok {
		return nil, false
	}
	al, ok := sl.X.(*ssa.Alloc)
	if !ok || al.Referrers() == nil {
		return nil, false
	}
	var out []ssa.Value
	for _, r := range *al.Referrers() {
		switch ia := r.(type) {
		case *ssa.IndexAddr:
			if ia.Referrers() == nil {
				return nil, false
			}
			for _, rr := range *ia.Referrers() {
				st, ok := rr.(*ssa.Store)
				if !ok || st.Addr != ssa.Value(ia) {
					return nil, false
				}
				out = append(out, st.Val)
			}
		case *ssa.Slice, *ssa.DebugRef:
		default:
			return nil, false
		}
	}
	return out, true
}
