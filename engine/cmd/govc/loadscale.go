package main

// Solver time limits are wall-clock limits.  When other work competes for the cores (several checks at once, a test
// suite running beside the check) an obligation that needs 5 s of solver time can take 20 s of wall-clock time and
// would be reported as not discharged - a false alarm.  The limits are therefore stretched by the load factor of the
// machine at the start of the check: 1-minute load average divided by the number of CPUs, between 1 and 4.

import (
	"os"
	"runtime"
	"strconv"
	"strings"
)

func loadFactor() float64 {
	data, err := os.ReadFile("/proc/loadavg")
	if err != nil {
		return 1
	}
	fs := strings.Fields(string(data))
	if len(fs) == 0 {
		return 1
	}
	l, err := strconv.ParseFloat(fs[0], 64)
	if err != nil {
		return 1
	}
	f := l / float64(runtime.NumCPU())
	if f < 1 {
		return 1
	}
	if f > 4 {
		return 4
	}
	return f
}

func scaledTimeout(base int) int {
	return int(float64(base)*loadFactor() + 0.5)
}
