package main

// Extension point for contract functions (kept in a separate file so it can grow without touching cexpr.go).

import (
	"fmt"
	"strconv"
	"sync"
	"go/types"
	"strings"

	"golang.org/x/tools/go/ssa"
)

var extCalls = map[string]func(e *Env, x *Expr) (Bound, error){}

func init() {
	// acqof("lockField", e): e evaluated in the state at the last acquisition of that monitor lock in this activation
	extCalls["acqof"] = func(e *Env, x *Expr) (Bound, error) {
		if len(x.Args) != 2 || x.Args[0].Op != "str" {
			return Bound{}, fmt.Errorf("acqof(\"lock\", expr)")
		}
		if e.f == nil {
			return Bound{}, fmt.Errorf("acqof outside a function")
		}
		root := e.f
		var st *State
		for k, s := range root.acqState {
			if strings.Contains(k, "."+x.Args[0].Name+"@") {
				st = s
			}
		}
		if st == nil {
			// not acquired (yet) on this path: the value is undefined, i.e. unconstrained
			cur, err := e.eval(x.Args[1])
			if err != nil {
				return Bound{}, err
			}
			return Bound{V: Val{e.vc.fresh("undef_acqof", cur.V.S), cur.V.S}, T: cur.T}, nil
		}
		n := *e
		n.state = st
		f := e.f
		n.lookup = func(name string) (Bound, bool) { return f.lookupLocal(name, st, e.loop) }
		return n.eval(x.Args[1])
	}
	// ownsent("T", i): the i-th value this activation sent on a channel of element type T
	extCalls["ownsent"] = func(e *Env, x *Expr) (Bound, error) {
		if len(x.Args) != 2 || x.Args[0].Op != "str" {
			return Bound{}, fmt.Errorf("ownsent(\"elemtype\", i)")
		}
		t := e.p.lookupType(e.pkg, x.Args[0].Name)
		if t == nil {
			return Bound{}, fmt.Errorf("unknown type %s", x.Args[0].Name)
		}
		i, err := e.eval(x.Args[1])
		if err != nil {
			return Bound{}, err
		}
		comp := "Own_SendVal_" + typeKey(t)
		e.vc.regComp(comp, "(Array Int "+e.vc.sortOf(t)+")")
		return Bound{V: Val{sel(e.vc.get(e.state, comp), i.V.T), e.vc.sortOf(t)}, T: t}, nil
	}
	// ctxerr(c): c.Err() of a context (deterministic accessor, same symbol as in the code translation)
	extCalls["ctxerr"] = func(e *Env, x *Expr) (Bound, error) {
		a, err := e.eval(x.Args[0])
		if err != nil {
			return Bound{}, err
		}
		e.vc.declareFun("m_context_Context_Err", []string{"Iface"}, "Iface")
		return Bound{V: Val{app("m_context_Context_Err", a.V.T), "Iface"}, T: types.Universe.Lookup("error").Type()}, nil
	}
	extCalls["ctxdone"] = func(e *Env, x *Expr) (Bound, error) {
		a, err := e.eval(x.Args[0])
		if err != nil {
			return Bound{}, err
		}
		e.vc.declareFun("m_context_Context_Done", []string{"Iface"}, "Int")
		return Bound{V: Val{app("m_context_Context_Done", a.V.T), "Int"}, T: types.NewChan(types.RecvOnly, types.NewStruct(nil, nil))}, nil
	}
}

// safeTags: property tags of implicit safety / lock-discipline obligations
func (f *Frame) safeTags() []string {
	r := f
	for r.parent != nil {
		r = r.parent
	}
	if r.contract != nil && len(r.contract.SafetyTags) > 0 {
		return r.contract.SafetyTags
	}
	return f.tags
}

func init() {
	// atloop(e): e evaluated in the state on entry to the loop whose invariant is being stated
	extCalls["atloop"] = func(e *Env, x *Expr) (Bound, error) {
		if e.loop == nil || e.loop.entryState == nil || e.f == nil {
			return Bound{}, fmt.Errorf("atloop() outside a loop invariant")
		}
		n := *e
		n.state = e.loop.entryState
		f, li := e.f, e.loop
		n.lookup = func(name string) (Bound, bool) { return f.lookupLocal(name, li.entryState, li) }
		return n.eval(x.Args[0])
	}
}

func init() {
	// framemap(m) / framemem(s) in a loop invariant: objects that existed when the function was entered have not been
	// modified since the loop was entered (the loop only writes objects allocated by this activation)
	frame := func(e *Env, comps []string) (Bound, error) {
		if e.loop == nil || e.loop.entryState == nil || e.f == nil {
			return Bound{}, fmt.Errorf("framemap/framemem outside a loop invariant")
		}
		vc := e.vc
		nextEntry := vc.get(e.f.rootEntry(), "next")
		var cs []string
		for _, c := range comps {
			cs = append(cs, fmt.Sprintf("(forall ((r Int)) (! (=> (and (>= r 0) (< r %s)) (= (select %s r) (select %s r))) :pattern ((select %s r))))",
				nextEntry, vc.get(e.state, c), vc.get(e.loop.entryState, c), vc.get(e.state, c)))
		}
		return Bound{V: Val{and(cs...), "Bool"}, T: types.Typ[types.Bool]}, nil
	}
	extCalls["framemap"] = func(e *Env, x *Expr) (Bound, error) {
		a, err := e.eval(x.Args[0])
		if err != nil {
			return Bound{}, err
		}
		mt, ok := a.T.Underlying().(*types.Map)
		if !ok {
			return Bound{}, fmt.Errorf("framemap of non-map")
		}
		h, v := e.vc.regMap(mt)
		return frame(e, []string{h, v})
	}
	extCalls["framemem"] = func(e *Env, x *Expr) (Bound, error) {
		a, err := e.eval(x.Args[0])
		if err != nil {
			return Bound{}, err
		}
		st, ok := a.T.Underlying().(*types.Slice)
		if !ok {
			return Bound{}, fmt.Errorf("framemem of non-slice")
		}
		return frame(e, []string{e.vc.regMem(st.Elem())})
	}
}

// ---- lastcall("Name"): the (first) result of the most recent call, on the current path, to a function or method
// with that short name.  Only names mentioned in the root contract are tracked.

var lastCallTypes sync.Map // comp name -> types.Type

func lastCallComp(name string) string { return "Own_last_" + sanitize(name) }

func lastCallCompN(name string, i int) string {
	if i == 0 {
		return lastCallComp(name)
	}
	return fmt.Sprintf("Own_last_%s_r%d", sanitize(name), i)
}

func (f *Frame) noteLastCall(c *ssa.CallCommon, res []Val) {
	f.noteLastArgs(c)
	if len(res) == 0 {
		return
	}
	rc := f.rootContract()
	if rc == nil || rc.Key == "" {
		return
	}
	name := shortCallee(c)
	if !contractMentionsLastCall(rc, name) {
		return
	}
	for i, r := range res {
		comp := lastCallCompN(name, i)
		f.vc.regComp(comp, r.S)
		f.vc.set(f.cur, comp, r.T)
		if sig := c.Signature(); i < sig.Results().Len() {
			lastCallTypes.Store(comp, sig.Results().At(i).Type())
		}
	}
}

func contractMentionsLastCall(rc *FuncContract, name string) bool {
	needle := "lastcall(\"" + name + "\""
	for _, s := range rc.Sites {
		if strings.Contains(s.Text, needle) {
			return true
		}
	}
	for _, cs := range [][]*Clause{rc.Ensures, rc.AtRelease} {
		for _, c := range cs {
			if strings.Contains(c.Text, needle) {
				return true
			}
		}
	}
	return false
}

func init() {
	extCalls["lastcall"] = func(e *Env, x *Expr) (Bound, error) {
		if len(x.Args) < 1 || len(x.Args) > 2 || x.Args[0].Op != "str" {
			return Bound{}, fmt.Errorf("lastcall(\"Name\"[, resultIndex])")
		}
		ri := 0
		if len(x.Args) == 2 {
			n, err := strconv.Atoi(x.Args[1].Name)
			if err != nil {
				return Bound{}, fmt.Errorf("lastcall: result index must be a literal")
			}
			ri = n
		}
		comp := lastCallCompN(x.Args[0].Name, ri)
		ci, ok := e.vc.comps[comp]
		if !ok {
			return Bound{}, fmt.Errorf("no call to %s has been executed before this point", x.Args[0].Name)
		}
		var t types.Type
		switch ci.sort {
		case "Str":
			t = types.Typ[types.String]
		case "Bool":
			t = types.Typ[types.Bool]
		case "Int":
			t = types.Typ[types.Int]
		case "Iface":
			t = types.Universe.Lookup("error").Type()
		}
		if gt, ok := lastCallTypes.Load(comp); ok {
			t = gt.(types.Type)
		}
		return Bound{V: Val{e.vc.get(e.state, comp), ci.sort}, T: t}, nil
	}
}

// initLastCalls registers the lastcall ghosts of the root contract before execution, so that a condition evaluated
// before the first such call sees an unconstrained value (not an evaluation error).
func (f *Frame) initLastCalls() {
	rc := f.rootContract()
	if rc == nil || rc.Key == "" {
		return
	}
	for _, b := range f.fn.Blocks {
		for _, in := range b.Instrs {
			var cc *ssa.CallCommon
			switch x := in.(type) {
			case *ssa.Call:
				cc = &x.Call
			case *ssa.Defer:
				cc = &x.Call
			}
			if cc == nil {
				continue
			}
			name := shortCallee(cc)
			if !contractMentionsLastCall(rc, name) {
				continue
			}
			sig := cc.Signature()
			if sig.Results().Len() == 0 {
				continue
			}
			for i := 0; i < sig.Results().Len(); i++ {
				comp := lastCallCompN(name, i)
				if _, ok := f.vc.comps[comp]; !ok {
					f.vc.regComp(comp, f.vc.sortOf(sig.Results().At(i).Type()))
				}
				lastCallTypes.Store(comp, sig.Results().At(i).Type())
			}
		}
	}
}

// foreignGlobal resolves pkg.Var for a package-level variable of another loaded package.
func (e *Env) foreignGlobal(x *Expr) (Bound, bool) {
	if len(x.Args) == 0 || x.Args[0].Op != "ident" {
		return Bound{}, false
	}
	if _, isVar := e.vars[x.Args[0].Name]; isVar {
		return Bound{}, false
	}
	pk, ok := e.p.ssaPkgs[x.Args[0].Name]
	if !ok {
		// a variable of a package outside the repository (io.EOF ...): known when the code itself refers to it
		comp := globalComp(x.Args[0].Name, x.Name)
		if ci, ok := e.vc.comps[comp]; ok {
			var t types.Type
			if ci.sort == "Iface" {
				t = types.Universe.Lookup("error").Type()
			}
			return Bound{V: Val{e.vc.get(e.state, comp), ci.sort}, T: t}, true
		}
		return Bound{}, false
	}
	g, ok := pk.Members[x.Name].(*ssa.Global)
	if !ok {
		return Bound{}, false
	}
	if e.lookup != nil {
		if _, shadow := e.lookup(x.Args[0].Name); shadow {
			return Bound{}, false
		}
	}
	pt := g.Type().Underlying().(*types.Pointer)
	comp := globalComp(pk.Pkg.Name(), x.Name)
	e.vc.regComp(comp, e.vc.sortOf(pt.Elem()))
	return Bound{V: Val{e.vc.get(e.state, comp), e.vc.sortOf(pt.Elem())}, T: pt.Elem()}, true
}

// altBinding: the SSA builder sometimes records the declaration "x := T{}" of a map or slice variable with a nil
// constant although every use refers to the constructed value.  When the only dominating binding of a name is
// such a nil constant, a value that the same variable is bound to elsewhere and whose definition strictly
// dominates the current block is the variable's value here.
func (f *Frame) altBinding(name string) ssa.Value {
	if f.curBlock == nil {
		return nil
	}
	var best ssa.Value
	bestDepth := -1
	for _, b := range f.fn.Blocks {
		for _, in := range b.Instrs {
			dr, ok := in.(*ssa.DebugRef)
			if !ok || dr.IsAddr || dr.Object() == nil || dr.Object().Name() != name {
				continue
			}
			def, ok := dr.X.(ssa.Instruction)
			if !ok {
				continue
			}
			if _, isPhi := dr.X.(*ssa.Phi); isPhi {
				continue
			}
			if _, computed := f.vals[dr.X]; !computed {
				continue
			}
			db := def.Block()
			if db == nil || db == f.curBlock || !db.Dominates(f.curBlock) {
				continue
			}
			d := 0
			for x := db; x != nil; x = x.Idom() {
				d++
			}
			if d > bestDepth {
				bestDepth, best = d, dr.X
			}
		}
	}
	return best
}

// lastarg("Name", i): the i-th argument (numbered as in site conditions) of the most recent call, on the current
// path, to a function or method with that short name.
func lastArgComp(name string, i int) string { return fmt.Sprintf("Own_lastarg_%s_%d", sanitize(name), i) }

func contractMentionsLastArg(rc *FuncContract, name string) bool {
	needle := "lastarg(\"" + name + "\""
	for _, s := range rc.Sites {
		if strings.Contains(s.Text, needle) {
			return true
		}
	}
	for _, cs := range [][]*Clause{rc.Ensures, rc.AtRelease} {
		for _, c := range cs {
			if strings.Contains(c.Text, needle) {
				return true
			}
		}
	}
	for _, l := range rc.Loops {
		for _, c := range l.Invariants {
			if strings.Contains(c.Text, needle) {
				return true
			}
		}
	}
	return false
}

func (f *Frame) noteLastArgs(c *ssa.CallCommon) {
	rc := f.rootContract()
	if rc == nil || rc.Key == "" {
		return
	}
	name := shortCallee(c)
	if !contractMentionsLastArg(rc, name) {
		return
	}
	for i, a := range c.Args {
		v := f.val(a)
		comp := lastArgComp(name, i)
		f.vc.regComp(comp, v.S)
		f.vc.set(f.cur, comp, v.T)
		lastCallTypes.Store(comp, a.Type())
	}
}

func init() {
	extCalls["lastarg"] = func(e *Env, x *Expr) (Bound, error) {
		if len(x.Args) != 2 || x.Args[0].Op != "str" {
			return Bound{}, fmt.Errorf("lastarg(\"Name\", index)")
		}
		n, err := strconv.Atoi(x.Args[1].Name)
		if err != nil {
			return Bound{}, fmt.Errorf("lastarg: index must be a literal")
		}
		comp := lastArgComp(x.Args[0].Name, n)
		ci, ok := e.vc.comps[comp]
		if !ok {
			// no such call yet on any path: register with the sort of the first matching call in the function
			if e.f != nil {
				for _, b := range e.f.fn.Blocks {
					for _, in := range b.Instrs {
						var cc *ssa.CallCommon
						switch y := in.(type) {
						case *ssa.Call:
							cc = &y.Call
						case *ssa.Defer:
							cc = &y.Call
						}
						if cc != nil && shortCallee(cc) == x.Args[0].Name && n < len(cc.Args) {
							e.vc.regComp(comp, e.vc.sortOf(cc.Args[n].Type()))
							lastCallTypes.Store(comp, cc.Args[n].Type())
						}
					}
				}
			}
			ci, ok = e.vc.comps[comp]
			if !ok {
				return Bound{}, fmt.Errorf("no call to %s in this function", x.Args[0].Name)
			}
		}
		var t types.Type
		if gt, ok := lastCallTypes.Load(comp); ok {
			t = gt.(types.Type)
		}
		return Bound{V: Val{e.vc.get(e.state, comp), ci.sort}, T: t}, nil
	}
}
