package main

import (
	"encoding/json"
	"fmt"
	"os"
	"os/exec"
	"path/filepath"
	"strings"
)

func cmdReplay(args []string) int {
	if len(args) < 1 {
		fmt.Fprintln(os.Stderr, "usage: govc replay <path>")
		return 2
	}
	data, err := os.ReadFile(args[0])
	if err != nil {
		fmt.Fprintln(os.Stderr, err)
		return 2
	}
	fmt.Println(string(data))
	// a record that carries a reproduced counterexample is run again against the real code
	var rec map[string]interface{}
	if json.Unmarshal(data, &rec) == nil {
		if cmd, ok := rec["replay_cmd"].(string); ok && cmd != "" {
			fmt.Println("--- running:", cmd)
			c := exec.Command("/bin/sh", "-c", cmd)
			c.Env = append(os.Environ(), "GOFLAGS=-mod=mod", "GOPROXY=off", "GOSUMDB=off", "GOTOOLCHAIN=local")
			out, _ := c.CombinedOutput()
			fmt.Println(string(out))
			if strings.Contains(string(out), "REPLAY-VIOLATION") {
				return 1
			}
			return 0
		}
	}
	return 0
}

func cmdSelftest(args []string) int { return 2 }

// loadLibs reads the trusted library specs from /verif/contracts/lib/*.spec
func (p *Program) loadLibs() error {
	files, _ := filepath.Glob(filepath.Join(verifRoot(), "contracts", "lib", "*.spec"))
	for _, f := range files {
		cf, err := parseContractFile(f, "lib")
		if err != nil {
			return err
		}
		if p.libs == nil {
			p.libs = cf
			continue
		}
		for k, v := range cf.Funcs {
			p.libs.Funcs[k] = v
		}
		for k, v := range cf.Specs {
			p.libs.Specs[k] = v
		}
	}
	return nil
}

func (p *Program) addBounded(id, tier string, cov map[string]interface{}, violations *int) {}
