package main

import (
	"fmt"
	"os"
	"path/filepath"
)

func cmdReplay(args []string) int {
	if len(args) < 1 {
		fmt.Fprintln(os.Stderr, "usage: govc replay <path>")
		return 2
	}
	data, err := os.ReadFile(args[0])
	if err != nil {
		fmt.Fprintln(os.Stderr, err)
		return 2
	}
	fmt.Println(string(data))
	return 0
}

func cmdSelftest(args []string) int { return 2 }

// loadLibs reads the trusted library specs from /verif/contracts/lib/*.spec
func (p *Program) loadLibs() error {
	files, _ := filepath.Glob(filepath.Join(verifRoot(), "contracts", "lib", "*.spec"))
	for _, f := range files {
		cf, err := parseContractFile(f, "lib")
		if err != nil {
			return err
		}
		if p.libs == nil {
			p.libs = cf
			continue
		}
		for k, v := range cf.Funcs {
			p.libs.Funcs[k] = v
		}
		for k, v := range cf.Specs {
			p.libs.Specs[k] = v
		}
	}
	return nil
}

// replay turns a counterexample into a run of the real code when a replay recipe exists.
func (p *Program) replay(dir string, o *Obligation, it *OblResult, model, reason string) (string, bool) {
	path := writeReplayFile(dir, o, it, reason)
	if model != "" {
		os.WriteFile(path+".model.txt", []byte(model), 0o644)
	}
	return path, false
}

func (p *Program) addBounded(id, tier string, cov map[string]interface{}, violations *int) {}
