package main

import (
	"go/types"
	"strings"

	"golang.org/x/tools/go/ssa"
)

// Private cells: address-taken local variables whose address never leaves this activation
// (only loads, stores and capture by closures that are called or deferred in place).  Unknown
// callees cannot reach them, so a havoc of "everything" keeps their contents.

type privCell struct {
	comp  string
	ref   string
	alloc *ssa.Alloc
}

func allocEscapes(a *ssa.Alloc) bool {
	if a.Referrers() == nil {
		return true
	}
	for _, r := range *a.Referrers() {
		switch x := r.(type) {
		case *ssa.Store:
			if x.Val == ssa.Value(a) {
				return true // the address itself is stored somewhere
			}
		case *ssa.UnOp, *ssa.DebugRef:
		case *ssa.FieldAddr:
			if addrEscapes(x, 0) {
				return true
			}
		case *ssa.MakeClosure:
			if closureEscapes(x) && !readOnlyCapture(x, a, 0) {
				return true
			}
		default:
			return true
		}
	}
	return false
}

// addrEscapes: the address of a field (of a field ...) of a local struct is only used to load and store
func addrEscapes(v ssa.Value, depth int) bool {
	if depth > 4 || v.Referrers() == nil {
		return true
	}
	for _, r := range *v.Referrers() {
		switch x := r.(type) {
		case *ssa.Store:
			if x.Val == v {
				return true
			}
		case *ssa.UnOp, *ssa.DebugRef:
		case *ssa.FieldAddr:
			if addrEscapes(x, depth+1) {
				return true
			}
		default:
			return true
		}
	}
	return false
}

// readOnlyCapture: the closure (which may run anywhere, any time) only loads the captured variable, so nobody but
// the allocating function ever writes the cell.
func readOnlyCapture(mc *ssa.MakeClosure, v ssa.Value, depth int) bool {
	if depth > 3 {
		return false
	}
	fn, ok := mc.Fn.(*ssa.Function)
	if !ok {
		return false
	}
	for i, b := range mc.Bindings {
		if b != v || i >= len(fn.FreeVars) {
			continue
		}
		fv := fn.FreeVars[i]
		if fv.Referrers() == nil {
			continue
		}
		for _, r := range *fv.Referrers() {
			switch x := r.(type) {
			case *ssa.UnOp, *ssa.DebugRef:
			case *ssa.MakeClosure:
				if !readOnlyCapture(x, fv, depth+1) {
					return false
				}
			default:
				return false
			}
		}
	}
	return true
}

func closureEscapes(mc *ssa.MakeClosure) bool {
	if mc.Referrers() == nil {
		return true
	}
	for _, r := range *mc.Referrers() {
		switch x := r.(type) {
		case *ssa.Defer:
			if x.Call.Value != ssa.Value(mc) {
				return true
			}
		case *ssa.Call:
			if x.Call.Value != ssa.Value(mc) {
				return true
			}
		case *ssa.DebugRef:
		default:
			return true
		}
	}
	return false
}

func (f *Frame) root() *Frame {
	r := f
	for r.parent != nil {
		r = r.parent
	}
	return r
}

// notePrivate records the cells of a freshly allocated non-escaping local.
func (f *Frame) notePrivate(a *ssa.Alloc, ref string) {
	if allocEscapes(a) {
		return
	}
	el := a.Type().Underlying().(*types.Pointer).Elem()
	r := f.root()
	if isStruct(el) {
		for _, l := range structLeaves(el, nil) {
			n, _ := f.vc.regField(el, l.path)
			r.priv = append(r.priv, privCell{n, ref, a})
		}
		return
	}
	if _, ok := el.Underlying().(*types.Array); ok {
		return
	}
	r.priv = append(r.priv, privCell{f.vc.regCell(el), ref, a})
}

// restorePrivate re-installs the contents of private cells after a havoc (old = state before the havoc).
func (f *Frame) restorePrivate(old *State) {
	vc := f.vc
	for _, pc := range append(append([]privCell{}, f.root().priv...), f.root().frozen...) {
		if _, ok := vc.comps[pc.comp]; !ok {
			continue
		}
		cur := vc.get(f.cur, pc.comp)
		prev := vc.get(old, pc.comp)
		if cur == prev {
			continue
		}
		vc.set(f.cur, pc.comp, store(cur, pc.ref, sel(prev, pc.ref)))
	}
}

// restorePrivateUnwritten: at a loop header after a havoc of everything, private cells that the loop does not
// assign (directly or through a closure called inside the loop) keep the value they had on loop entry.
func (f *Frame) restorePrivateUnwritten(li *loopInfo) {
	vc := f.vc
	for _, pc := range f.root().frozen {
		if _, ok := vc.comps[pc.comp]; !ok {
			continue
		}
		cur := vc.get(f.cur, pc.comp)
		prev := vc.get(li.entryState, pc.comp)
		if cur != prev {
			vc.set(f.cur, pc.comp, store(cur, pc.ref, sel(prev, pc.ref)))
		}
	}
	for _, pc := range f.root().priv {
		if pc.alloc.Parent() != f.fn {
			continue
		}
		if _, ok := vc.comps[pc.comp]; !ok {
			continue
		}
		written := false
		for bi := range li.blocks {
			for _, in := range f.fn.Blocks[bi].Instrs {
				switch x := in.(type) {
				case *ssa.Store:
					base := x.Addr
					for {
						if fa, ok := base.(*ssa.FieldAddr); ok {
							base = fa.X
							continue
						}
						break
					}
					if base == ssa.Value(pc.alloc) {
						written = true
					}
				case *ssa.Call:
					if mc, ok := x.Call.Value.(*ssa.MakeClosure); ok {
						for _, b := range mc.Bindings {
							if b == ssa.Value(pc.alloc) {
								written = true
							}
						}
					}
					for _, a := range x.Call.Args {
						if a == ssa.Value(pc.alloc) {
							written = true
						}
					}
				}
			}
		}
		if written {
			continue
		}
		cur := vc.get(f.cur, pc.comp)
		prev := vc.get(li.entryState, pc.comp)
		if cur != prev {
			vc.set(f.cur, pc.comp, store(cur, pc.ref, sel(prev, pc.ref)))
		}
	}
}

func elemSortOf(arraySort string) string {
	// "(Array Int X)" -> "X"
	s := strings.TrimPrefix(arraySort, "(Array Int ")
	return strings.TrimSuffix(s, ")")
}

// loopStoreBases: if every write to comp inside the loop is a plain field store whose base object is computed
// outside the loop, the terms of those bases; otherwise nil.
func (f *Frame) loopStoreBases(li *loopInfo, comp string) []string {
	if !strings.HasPrefix(comp, "H_") {
		return nil
	}
	var bases []string
	seen := map[string]bool{}
	for bi := range li.blocks {
		for _, in := range f.fn.Blocks[bi].Instrs {
			cs, all := f.instrWrites(in)
			if all {
				return nil
			}
			writes := false
			for _, c := range cs {
				if c == comp {
					writes = true
				}
			}
			if !writes {
				continue
			}
			st, ok := in.(*ssa.Store)
			if !ok {
				return nil
			}
			fa, ok := st.Addr.(*ssa.FieldAddr)
			if !ok {
				return nil
			}
			if _, nested := fa.X.(*ssa.FieldAddr); nested {
				return nil
			}
			// the base must be defined outside the loop
			if bi2, ok := fa.X.(ssa.Instruction); ok && li.blocks[bi2.Block().Index] {
				return nil
			}
			v, ok := f.vals[fa.X]
			if !ok {
				if _, isParam := fa.X.(*ssa.Parameter); !isParam {
					return nil
				}
				v = f.val(fa.X)
			}
			if !seen[v.T] {
				seen[v.T] = true
				bases = append(bases, v.T)
			}
		}
	}
	return bases
}

// Frozen captured variables.  A closure reads a captured variable through its cell.  When the variable is assigned
// exactly once in the enclosing function, that assignment precedes the creation of every closure capturing it, and
// every capturing closure only reads it, nobody writes the cell during the closure's life: its content survives
// calls to unknown code.
func (f *Frame) noteFrozen(fv *ssa.FreeVar, ref string) {
	pt, ok := fv.Type().Underlying().(*types.Pointer)
	if !ok {
		return
	}
	el := pt.Elem()
	if isStruct(el) {
		return
	}
	if _, isArr := el.Underlying().(*types.Array); isArr {
		return
	}
	fn := fv.Parent()
	parent := fn.Parent()
	if parent == nil {
		return
	}
	idx := -1
	for i, x := range fn.FreeVars {
		if x == fv {
			idx = i
		}
	}
	// the binding in the enclosing function
	var src ssa.Value
	for _, b := range parent.Blocks {
		for _, in := range b.Instrs {
			if mc, ok := in.(*ssa.MakeClosure); ok && mc.Fn == ssa.Value(fn) && idx < len(mc.Bindings) {
				src = mc.Bindings[idx]
			}
		}
	}
	a, ok := src.(*ssa.Alloc)
	if !ok || a.Referrers() == nil {
		return
	}
	var stores []*ssa.Store
	var closures []*ssa.MakeClosure
	for _, r := range *a.Referrers() {
		switch x := r.(type) {
		case *ssa.Store:
			if x.Val == ssa.Value(a) {
				return
			}
			stores = append(stores, x)
		case *ssa.UnOp, *ssa.DebugRef:
		case *ssa.MakeClosure:
			if !readOnlyCapture(x, a, 0) {
				return
			}
			closures = append(closures, x)
		default:
			return
		}
	}
	if len(stores) != 1 {
		return
	}
	st := stores[0]
	for _, mc := range closures {
		if st.Block() == mc.Block() {
			si, mi := -1, -1
			for i, in := range st.Block().Instrs {
				if in == ssa.Instruction(st) {
					si = i
				}
				if in == ssa.Instruction(mc) {
					mi = i
				}
			}
			if si > mi {
				return
			}
		} else if !st.Block().Dominates(mc.Block()) {
			return
		}
	}
	r := f.root()
	r.frozen = append(r.frozen, privCell{f.vc.regCell(el), ref, nil})
}
