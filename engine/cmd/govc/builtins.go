package main

import (
	"fmt"
	"go/token"
	"go/types"
	"strings"

	"golang.org/x/tools/go/ssa"
)

func (f *Frame) builtin(b *ssa.Builtin, c *ssa.CallCommon, pos token.Pos) []Val {
	vc := f.vc
	switch b.Name() {
	case "len", "cap":
		v := f.val(c.Args[0])
		switch t := c.Args[0].Type().Underlying().(type) {
		case *types.Slice:
			if b.Name() == "len" {
				return []Val{{"(s-len " + v.T + ")", "Int"}}
			}
			return []Val{{"(s-cap " + v.T + ")", "Int"}}
		case *types.Basic:
			return []Val{{"(slen " + v.T + ")", "Int"}}
		case *types.Map:
			ks := vc.sortOf(t.Key())
			fn := "mapcard_" + sanitize(ks)
			vc.declareFun(fn, []string{"(Array " + ks + " Bool)"}, "Int")
			vc.axiomOnce(fn+"_nonneg", fmt.Sprintf("(forall ((a (Array %s Bool))) (! (>= (%s a) 0) :pattern ((%s a))))", ks, fn, fn))
			vc.axiomOnce(fn+"_empty", fmt.Sprintf("(= (%s ((as const (Array %s Bool)) false)) 0)", fn, ks))
			vc.axiomOnce(fn+"_pos", fmt.Sprintf("(forall ((a (Array %s Bool)) (k %s)) (! (=> (select a k) (> (%s a) 0)) :pattern ((select a k) (%s a))))", ks, ks, fn, fn))
			has, _ := vc.regMap(t)
			return []Val{vc.define("maplen", Val{ite(eq(v.T, "0"), "0", app(fn, sel(vc.get(f.cur, has), v.T))), "Int"})}
		case *types.Array:
			return []Val{{fmt.Sprintf("%d", t.Len()), "Int"}}
		case *types.Pointer:
			if arr, ok := t.Elem().Underlying().(*types.Array); ok {
				return []Val{{fmt.Sprintf("%d", arr.Len()), "Int"}}
			}
		case *types.Chan:
			r := f.freshVal("chanlen", types.Typ[types.Int])
			vc.assume("(>= " + r.T + " 0)")
			return []Val{r}
		}
		return []Val{f.freshVal("len", types.Typ[types.Int])}
	case "append":
		f.siteCall(c, pos)
		return []Val{f.builtinAppend(c, pos)}
	case "copy":
		f.siteCall(c, pos)
		return []Val{f.builtinCopy(c, pos)}
	case "delete":
		m := c.Args[0].Type().Underlying().(*types.Map)
		has, _ := vc.regMap(m)
		h, k := f.val(c.Args[0]), f.val(c.Args[1])
		f.siteDelete(c, h, k, pos)
		hs := vc.get(f.cur, has)
		// delete on a nil map is a no-op
		vc.set(f.cur, has, ite(eq(h.T, "0"), hs, store(hs, h.T, store(sel(hs, h.T), k.T, "false"))))
		return nil
	case "close":
		f.siteCall(c, pos)
		f.neverClosedObl(c.Args[0], pos)
		ch := f.val(c.Args[0])
		vc.regComp("ChanClosed", "(Array Int Bool)")
		cl := vc.get(f.cur, "ChanClosed")
		f.safe("close", pos, orDefault(f.exprText(pos, "call"), "close("+c.Args[0].Name()+")"), and(not(eq(ch.T, "0")), not(sel(cl, ch.T))))
		vc.set(f.cur, "ChanClosed", store(cl, ch.T, "true"))
		return nil
	case "min", "max":
		a, bb := f.val(c.Args[0]), f.val(c.Args[1])
		return []Val{{app("i"+b.Name(), a.T, bb.T), "Int"}}
	case "print", "println", "recover":
		return f.freshResults(c, b.Name())
	case "ssa:wrapnilchk":
		v := f.val(c.Args[0])
		f.safe("nil", pos, "method value receiver", not(eq(v.T, "0")))
		return []Val{v}
	}
	vc.abstract(f.key + ": builtin " + b.Name())
	return f.freshResults(c, b.Name())
}

func (f *Frame) siteDelete(c *ssa.CallCommon, h, k Val, pos token.Pos) {
	f.siteDeleteUser(c, h, k, pos)
	if u, ok := c.Args[0].(*ssa.UnOp); ok && u.Op == token.MUL {
		if fa, ok := u.X.(*ssa.FieldAddr); ok {
			st := fa.X.Type().Underlying().(*types.Pointer).Elem()
			if m, ok := f.protectedBy(st, fieldName(fa)); ok && (f.safety || f.contract != nil) {
				comp := heldComp(st, m.Lock)
				f.vc.regComp(comp, "(Array Int Int)")
				lbl := f.label("lockset", fieldName(fa)+":delete-needs-"+m.Lock)
				f.assertObl("lockset", lbl, nil, f.guard, fmt.Sprintf("(= (select %s %s) 2)", f.vc.get(f.cur, comp), f.val(fa.X).T), f.p.posString(pos))
			}
		}
	}
}

// append(s, t...) : in place iff len(s)+len(t) <= cap(s), otherwise a fresh block.
func (f *Frame) builtinAppend(c *ssa.CallCommon, pos token.Pos) Val {
	vc := f.vc
	st := c.Args[0].Type().Underlying().(*types.Slice)
	es := vc.sortOf(st.Elem())
	comp := vc.regMem(st.Elem())
	s := f.val(c.Args[0])
	t := f.val(c.Args[1])
	var n string
	var elemAt func(i string) string // i-th appended element
	mem := vc.get(f.cur, comp)
	if t.S == "Str" {
		n = "(slen " + t.T + ")"
		elemAt = func(i string) string { return "(sat " + t.T + " " + i + ")" }
	} else {
		n = "(s-len " + t.T + ")"
		elemAt = func(i string) string {
			return sel(sel(mem, "(s-ref "+t.T+")"), "(+ (s-off "+t.T+") "+i+")")
		}
	}
	nd := vc.define("app_n", Val{n, "Int"}).T
	inplace := vc.define("app_inplace", Val{fmt.Sprintf("(and (not (= (s-ref %s) 0)) (<= (+ (s-len %s) %s) (s-cap %s)))", s.T, s.T, nd, s.T), "Bool"}).T
	// in place: block of s gets the new elements at [off+len, off+len+n)
	oldBlk := sel(mem, "(s-ref "+s.T+")")
	blkIn := vc.fresh("app_blk_in", "(Array Int "+es+")")
	vc.assume(fmt.Sprintf("(forall ((i Int)) (! (= (select %s i) (ite (and (<= (+ (s-off %s) (s-len %s)) i) (< i (+ (s-off %s) (s-len %s) %s))) %s (select %s i))) :pattern ((select %s i))))",
		blkIn, s.T, s.T, s.T, s.T, nd, elemAt(fmt.Sprintf("(- i (+ (s-off %s) (s-len %s)))", s.T, s.T)), oldBlk, blkIn))
	// fresh block
	r := vc.allocRef(f.cur, "app_ref", f.guard)
	blkNew := vc.fresh("app_blk_new", "(Array Int "+es+")")
	vc.assume(fmt.Sprintf("(forall ((i Int)) (! (=> (and (<= 0 i) (< i (+ (s-len %s) %s))) (= (select %s i) (ite (< i (s-len %s)) (select %s (+ (s-off %s) i)) %s))) :pattern ((select %s i))))",
		s.T, nd, blkNew, s.T, oldBlk, s.T, elemAt("(- i (s-len "+s.T+"))"), blkNew))
	newCap := vc.fresh("app_cap", "Int")
	vc.assume(fmt.Sprintf("(>= %s (+ (s-len %s) %s))", newCap, s.T, nd))
	vc.set(f.cur, comp, ite(inplace, store(mem, "(s-ref "+s.T+")", blkIn), store(mem, r, blkNew)))
	res := vc.define("app_res", Val{ite(inplace,
		fmt.Sprintf("(mk-slice (s-ref %s) (s-off %s) (+ (s-len %s) %s) (s-cap %s))", s.T, s.T, s.T, nd, s.T),
		fmt.Sprintf("(mk-slice %s 0 (+ (s-len %s) %s) %s)", r, s.T, nd, newCap)), "Slice"})
	return res
}

func (f *Frame) builtinCopy(c *ssa.CallCommon, pos token.Pos) Val {
	vc := f.vc
	st := c.Args[0].Type().Underlying().(*types.Slice)
	es := vc.sortOf(st.Elem())
	comp := vc.regMem(st.Elem())
	d := f.val(c.Args[0])
	s := f.val(c.Args[1])
	mem := vc.get(f.cur, comp)
	var slenT string
	var srcAt func(i string) string
	if s.S == "Str" {
		slenT = "(slen " + s.T + ")"
		srcAt = func(i string) string { return "(sat " + s.T + " " + i + ")" }
	} else {
		slenT = "(s-len " + s.T + ")"
		srcAt = func(i string) string { return sel(sel(mem, "(s-ref "+s.T+")"), "(+ (s-off "+s.T+") "+i+")") }
	}
	n := vc.define("copy_n", Val{fmt.Sprintf("(imin (s-len %s) %s)", d.T, slenT), "Int"}).T
	oldBlk := sel(mem, "(s-ref "+d.T+")")
	blk := vc.fresh("copy_blk", "(Array Int "+es+")")
	vc.assume(fmt.Sprintf("(forall ((i Int)) (! (= (select %s i) (ite (and (<= (s-off %s) i) (< i (+ (s-off %s) %s))) %s (select %s i))) :pattern ((select %s i))))",
		blk, d.T, d.T, n, srcAt("(- i (s-off "+d.T+"))"), oldBlk, blk))
	vc.set(f.cur, comp, ite(fmt.Sprintf("(> %s 0)", n), store(mem, "(s-ref "+d.T+")", blk), mem))
	return Val{n, "Int"}
}

// ---- channels

func (vc *VC) regChan(t types.Type) (cnt, val string) {
	ct := t.Underlying().(*types.Chan)
	k := typeKey(ct.Elem())
	cnt, val = "SentCnt_"+k, "SentVal_"+k
	vc.regComp(cnt, "(Array Int Int)")
	vc.regComp(val, "(Array Int (Array Int "+vc.sortOf(ct.Elem())+"))")
	return
}

func (f *Frame) chanComps(t types.Type) []string {
	vc := f.vc
	vc.regComp("Own_SendCnt", "Int")
	vc.regComp("Own_SendChan", "(Array Int Int)")
	vcomp := ownSendValComp(t)
	vc.regComp(vcomp, "(Array Int "+vc.sortOf(t.Underlying().(*types.Chan).Elem())+")")
	return []string{"Own_SendCnt", "Own_SendChan", vcomp}
}

func (f *Frame) chanInit(t types.Type, r string) {
	cnt, _ := f.vc.regChan(t)
	f.vc.set(f.cur, cnt, store(f.vc.get(f.cur, cnt), r, "0"))
}

func (f *Frame) execSend(ch, x ssa.Value, pos token.Pos, cond string) {
	vc := f.vc
	c, v := f.val(ch), f.val(x)
	cnt, val := vc.regChan(ch.Type())
	vc.regComp("ChanClosed", "(Array Int Bool)")
	if cond == "true" {
		f.siteBlock([]string{c.T}, pos, "send")
		f.safe("send", pos, "send on "+ch.Name(), not(sel(vc.get(f.cur, "ChanClosed"), c.T)))
	}
	_, _ = cnt, val
	f.chanElemSend(ch, v, pos, cond)
	f.siteSend(ch, c, v, pos, cond)
	// per-activation ghost: the sends performed by this function's own instructions, in order
	vc.regComp("Own_SendCnt", "Int")
	vc.regComp("Own_SendChan", "(Array Int Int)")
	vcomp := ownSendValComp(ch.Type())
	vc.regComp(vcomp, "(Array Int "+v.S+")")
	n := vc.get(f.cur, "Own_SendCnt")
	oc, ov := vc.get(f.cur, "Own_SendChan"), vc.get(f.cur, vcomp)
	vc.set(f.cur, "Own_SendChan", ite(cond, store(oc, n, c.T), oc))
	vc.set(f.cur, vcomp, ite(cond, store(ov, n, v.T), ov))
	vc.set(f.cur, "Own_SendCnt", ite(cond, "(+ "+n+" 1)", n))
}

func ownSendValComp(chanT types.Type) string {
	ct := chanT.Underlying().(*types.Chan)
	return "Own_SendVal_" + typeKey(ct.Elem())
}

func (f *Frame) execRecv(x *ssa.UnOp) {
	ct := x.X.Type().Underlying().(*types.Chan)
	v := f.freshVal("recv_"+x.Name(), ct.Elem())
	f.siteBlock([]string{f.val(x.X).T}, x.Pos(), "recv")
	if !x.CommaOk {
		f.chanElemRecv(x.X, v, "true")
	}
	if x.CommaOk {
		ok := Val{f.vc.fresh("recvok_"+x.Name(), "Bool"), "Bool"}
		f.tuples[x] = []Val{v, ok}
		return
	}
	f.vals[x] = v
}

func (f *Frame) execSelect(x *ssa.Select) {
	vc := f.vc
	idx := vc.fresh("sel_"+x.Name(), "Int")
	lo := "0"
	if !x.Blocking {
		lo = "(- 1)"
	}
	vc.assume(fmt.Sprintf("(and (<= %s %s) (< %s %d))", lo, idx, idx, len(x.States)))
	vc.regComp("Own_LastSelect", "Int")
	vc.set(f.cur, "Own_LastSelect", idx)
	if x.Blocking {
		var chans []string
		for _, st := range x.States {
			chans = append(chans, f.val(st.Chan).T)
		}
		f.siteBlock(chans, x.Pos(), "select")
	}
	tup := []Val{{idx, "Int"}, {vc.fresh("selok_"+x.Name(), "Bool"), "Bool"}}
	for i, st := range x.States {
		if st.Dir == types.SendOnly {
			f.sendNonBlocking = !x.Blocking
			f.execSend(st.Chan, st.Send, st.Pos, fmt.Sprintf("(= %s %d)", idx, i))
			f.sendNonBlocking = false
		} else {
			ct := st.Chan.Type().Underlying().(*types.Chan)
			rv := f.freshVal(fmt.Sprintf("selrecv_%s_%d", x.Name(), i), ct.Elem())
			f.chanElemRecv(st.Chan, rv, fmt.Sprintf("(= %s %d)", idx, i))
			tup = append(tup, rv)
		}
	}
	f.tuples[x] = tup
}

// ---- ghost variables declared in contract files: `//@ ghost name sort` are parsed as globals with Mode "ghost <sort>"

func (p *Program) regGhost(vc *VC, pkg, name string) error {
	for _, cf := range p.contracts {
		for _, g := range cf.Globals {
			if g.Name == name && strings.HasPrefix(g.Mode, "ghost") {
				s := strings.TrimSpace(strings.TrimPrefix(g.Mode, "ghost"))
				sortName := map[string]string{"bool": "Bool", "int": "Int", "string": "Str"}[s]
				if sortName == "" {
					sortName = s
				}
				vc.regComp("Ghost_"+name, sortName)
				return nil
			}
		}
	}
	return fmt.Errorf("ghost %s not declared", name)
}

// ---- library calls with special models

var libSpecial = map[string]bool{
	"(encoding/binary.littleEndian).Uint16":    true,
	"(encoding/binary.littleEndian).PutUint16": true,
	"(encoding/binary.bigEndian).Uint64":       true,
	"(encoding/binary.bigEndian).PutUint64":    true,
	"bytes.Equal":                              true,
	"time.Now":                                 true,
	"(time.Time).After":                        true,
	"(time.Time).Before":                       true,
	"(time.Time).Equal":                        true,
	"(time.Time).IsZero":                       true,
	"(time.Time).Sub":                          true,
	"(time.Time).Add":                          true,
	"(time.Time).Unix":                         true,
	"(time.Time).UnixNano":                     true,
	"time.Since":                               true,
	"errors.New":                               true,
	"fmt.Errorf":                               true,
	"fmt.Sprintf":                              true,
	"(*sync.Once).Do":                          true,
	"(*bytes.Buffer).Write":                    true,
	"(*bytes.Buffer).Bytes":                    true,
	"(*bytes.Buffer).Len":                      true,
	"encoding/binary.Write":                    true,
	"github.com/minio/highwayhash.New64":       true,
}

func (vc *VC) regBuf() {
	vc.regComp("BufLen", "(Array Int Int)")
	vc.regComp("BufData", "(Array Int (Array Int Int))")
	vc.setElem("BufData", types.Typ[types.Uint8], 2)
}

func libSpecialWrites(f *Frame, name string, c *ssa.CallCommon) ([]string, bool) {
	switch name {
	case "(encoding/binary.littleEndian).PutUint16", "(encoding/binary.bigEndian).PutUint64":
		return []string{f.vc.regMem(types.Typ[types.Uint8])}, false
	case "time.Now", "time.Since":
		f.vc.regComp("now", "Int")
		return []string{"now"}, false
	case "(*bytes.Buffer).Write", "encoding/binary.Write":
		f.vc.regBuf()
		return []string{"BufLen", "BufData"}, false
	case "(*bytes.Buffer).Bytes":
		return []string{"next", f.vc.regMem(types.Typ[types.Uint8])}, false
	case "github.com/minio/highwayhash.New64":
		return []string{"next"}, false
	case "(*sync.Once).Do":
		return nil, true
	}
	return nil, false
}

// bytesOf: the n big-endian bytes of an unsigned value as fresh byte variables (linear; friendlier than div/mod)
func (f *Frame) bytesOf(v string, n int) []string {
	vc := f.vc
	var bs []string
	sum := ""
	for i := 0; i < n; i++ {
		b := vc.fresh("byte", "Int")
		vc.assume(fmt.Sprintf("(and (<= 0 %s) (< %s 256))", b, b))
		bs = append(bs, b)
		if sum == "" {
			sum = b
		} else {
			sum = fmt.Sprintf("(+ (* 256 %s) %s)", sum, b)
		}
	}
	vc.assume(fmt.Sprintf("(= %s %s)", v, sum))
	return bs
}

func (f *Frame) byteAt(s Val, i int) string {
	comp := f.vc.regMem(types.Typ[types.Uint8])
	return sel(sel(f.vc.get(f.cur, comp), "(s-ref "+s.T+")"), fmt.Sprintf("(sidx (s-off %s) %d)", s.T, i))
}

func (f *Frame) libCall(name string, fn *ssa.Function, c *ssa.CallCommon, args []Val, pos token.Pos) ([]Val, bool) {
	vc := f.vc
	if lm, ok := libPure[name]; ok {
		return []Val{vc.define(fn.Name(), lm.apply(vc, args))}, true
	}
	if h, ok := libExt[name]; ok {
		return h(f, c, args, pos)
	}
	if !libSpecial[name] {
		return nil, false
	}
	txt := orDefault(f.exprText(pos, "call"), name)
	switch name {
	case "(encoding/binary.littleEndian).Uint16":
		s := args[1]
		f.safe("index", pos, txt, fmt.Sprintf("(>= (s-len %s) 2)", s.T))
		return []Val{vc.define("le16", Val{fmt.Sprintf("(+ %s (* 256 %s))", f.byteAt(s, 0), f.byteAt(s, 1)), "Int"})}, true
	case "(encoding/binary.littleEndian).PutUint16":
		s, v := args[1], args[2]
		f.safe("index", pos, txt, fmt.Sprintf("(>= (s-len %s) 2)", s.T))
		comp := vc.regMem(types.Typ[types.Uint8])
		m := vc.get(f.cur, comp)
		blk := sel(m, "(s-ref "+s.T+")")
		nb := store(store(blk, fmt.Sprintf("(+ (s-off %s) 0)", s.T), "(mod "+v.T+" 256)"), fmt.Sprintf("(+ (s-off %s) 1)", s.T), "(div "+v.T+" 256)")
		vc.set(f.cur, comp, store(m, "(s-ref "+s.T+")", nb))
		return nil, true
	case "(encoding/binary.bigEndian).Uint64":
		s := args[1]
		f.safe("index", pos, txt, fmt.Sprintf("(>= (s-len %s) 8)", s.T))
		t := f.byteAt(s, 0)
		for i := 1; i < 8; i++ {
			t = fmt.Sprintf("(+ (* 256 %s) %s)", t, f.byteAt(s, i))
		}
		return []Val{vc.define("be64", Val{t, "Int"})}, true
	case "(encoding/binary.bigEndian).PutUint64":
		s, v := args[1], args[2]
		f.safe("index", pos, txt, fmt.Sprintf("(>= (s-len %s) 8)", s.T))
		comp := vc.regMem(types.Typ[types.Uint8])
		m := vc.get(f.cur, comp)
		blk := sel(m, "(s-ref "+s.T+")")
		bs := f.bytesOf(v.T, 8)
		for i := 0; i < 8; i++ {
			blk = store(blk, fmt.Sprintf("(+ (s-off %s) %d)", s.T, i), bs[i])
		}
		vc.set(f.cur, comp, store(m, "(s-ref "+s.T+")", blk))
		return nil, true
	case "bytes.Equal":
		a, b := args[0], args[1]
		comp := vc.regMem(types.Typ[types.Uint8])
		m := vc.get(f.cur, comp)
		r := vc.fresh("bytes_eq", "Bool")
		vc.assume(fmt.Sprintf("(= %s (and (= (s-len %s) (s-len %s)) (forall ((i Int)) (=> (and (<= 0 i) (< i (s-len %s))) (= (select (select %s (s-ref %s)) (+ (s-off %s) i)) (select (select %s (s-ref %s)) (+ (s-off %s) i)))))))",
			r, a.T, b.T, a.T, m, a.T, a.T, m, b.T, b.T))
		return []Val{{r, "Bool"}}, true
	case "time.Now":
		vc.regComp("now", "Int")
		old := vc.get(f.cur, "now")
		vc.havocComp(f.cur, "now")
		n := vc.get(f.cur, "now")
		vc.assume(fmt.Sprintf("(and (>= %s %s) (> %s 0))", n, old, n))
		vc.trust("time.Now is non-decreasing and never the zero time")
		return []Val{{n, "Int"}}, true
	case "time.Since":
		vc.regComp("now", "Int")
		old := vc.get(f.cur, "now")
		vc.havocComp(f.cur, "now")
		n := vc.get(f.cur, "now")
		vc.assume(fmt.Sprintf("(and (>= %s %s) (> %s 0))", n, old, n))
		return []Val{vc.define("since", Val{"(- " + n + " " + args[0].T + ")", "Int"})}, true
	case "(time.Time).After":
		return []Val{{"(> " + args[0].T + " " + args[1].T + ")", "Bool"}}, true
	case "(time.Time).Before":
		return []Val{{"(< " + args[0].T + " " + args[1].T + ")", "Bool"}}, true
	case "(time.Time).Equal":
		return []Val{{eq(args[0].T, args[1].T), "Bool"}}, true
	case "(time.Time).IsZero":
		return []Val{{eq(args[0].T, "0"), "Bool"}}, true
	case "(time.Time).Sub":
		return []Val{{"(- " + args[0].T + " " + args[1].T + ")", "Int"}}, true
	case "(time.Time).Add":
		return []Val{{"(+ " + args[0].T + " " + args[1].T + ")", "Int"}}, true
	case "(time.Time).Unix", "(time.Time).UnixNano":
		fnn := "time_" + fn.Name()
		vc.declareFun(fnn, []string{"Int"}, "Int")
		return []Val{{app(fnn, args[0].T), "Int"}}, true
	case "errors.New":
		e := vc.fresh("err_new", "Iface")
		vc.assume(not(eq(e, "inil")))
		if len(c.Args) > 0 {
			vc.declareFun("errmsg", []string{"Iface"}, "Str")
			vc.assume(eq(app("errmsg", e), args[0].T))
		}
		return []Val{{e, "Iface"}}, true
	case "fmt.Errorf":
		e := vc.fresh("err_fmt", "Iface")
		vc.assume(not(eq(e, "inil")))
		vc.declareFun("errmsg", []string{"Iface"}, "Str")
		f.fmtPrefix(app("errmsg", e), c.Args[0])
		return []Val{{e, "Iface"}}, true
	case "fmt.Sprintf":
		s := vc.fresh("sprintf", "Str")
		f.fmtPrefix(s, c.Args[0])
		// Sprintf("%v"/"%s", string) == the string itself (single verb, whole format)
		if k, ok := c.Args[0].(*ssa.Const); ok && k.Value != nil {
			fs := strings.Trim(k.Value.ExactString(), "\"")
			if fs == "%v" || fs == "%s" {
				if sv := f.variadicString(c.Args[1]); sv != "" {
					vc.assume(eq(s, sv))
					vc.trust("fmt.Sprintf(\"%v\", s) == s for strings")
				}
			}
		}
		return []Val{{s, "Str"}}, true
	case "(*bytes.Buffer).Write":
		vc.regBuf()
		vc.trust("bytes.Buffer modelled as a ghost byte sequence (Write appends, Bytes returns the contents)")
		b, s := args[0], args[1]
		comp := vc.regMem(types.Typ[types.Uint8])
		m := vc.get(f.cur, comp)
		bl, bd := vc.get(f.cur, "BufLen"), vc.get(f.cur, "BufData")
		n := sel(bl, b.T)
		nd := vc.fresh("buf_data", "(Array Int Int)")
		vc.assume(fmt.Sprintf("(forall ((i Int)) (! (= (select %s i) (ite (and (<= %s i) (< i (+ %s (s-len %s)))) (select (select %s (s-ref %s)) (+ (s-off %s) (- i %s))) (select (select %s %s) i))) :pattern ((select %s i))))",
			nd, n, n, s.T, m, s.T, s.T, n, bd, b.T, nd))
		vc.set(f.cur, "BufData", store(bd, b.T, nd))
		vc.set(f.cur, "BufLen", store(bl, b.T, fmt.Sprintf("(+ %s (s-len %s))", n, s.T)))
		return []Val{{"(s-len " + s.T + ")", "Int"}, {"inil", "Iface"}}, true
	case "(*bytes.Buffer).Len":
		vc.regBuf()
		return []Val{{sel(vc.get(f.cur, "BufLen"), args[0].T), "Int"}}, true
	case "(*bytes.Buffer).Bytes":
		vc.regBuf()
		b := args[0]
		comp := vc.regMem(types.Typ[types.Uint8])
		r := vc.allocRef(f.cur, "buf_bytes", f.guard)
		n := sel(vc.get(f.cur, "BufLen"), b.T)
		vc.set(f.cur, comp, store(vc.get(f.cur, comp), r, sel(vc.get(f.cur, "BufData"), b.T)))
		cp := vc.fresh("buf_cap", "Int")
		vc.assume(fmt.Sprintf("(>= %s %s)", cp, n))
		return []Val{vc.define("buf_bytes", Val{fmt.Sprintf("(mk-slice %s 0 %s %s)", r, n, cp), "Slice"})}, true
	case "encoding/binary.Write":
		// binary.Write(buf, binary.BigEndian, uint64) on a *bytes.Buffer appends the 8 bytes, most significant first
		wmi, ok1 := c.Args[0].(*ssa.MakeInterface)
		dmi, ok2 := c.Args[2].(*ssa.MakeInterface)
		omi, ok3 := c.Args[1].(*ssa.MakeInterface)
		if ok1 && ok2 && ok3 && wmi.X.Type().String() == "*bytes.Buffer" && omi.X.Type().String() == "encoding/binary.bigEndian" {
			if bt, ok := dmi.X.Type().Underlying().(*types.Basic); ok && bt.Kind() == types.Uint64 {
				vc.regBuf()
				vc.trust("encoding/binary.Write(buf, BigEndian, uint64) appends the 8 big-endian bytes")
				b, v := f.val(wmi.X), f.val(dmi.X)
				bl, bd := vc.get(f.cur, "BufLen"), vc.get(f.cur, "BufData")
				n := sel(bl, b.T)
				arr := sel(bd, b.T)
				bs := f.bytesOf(v.T, 8)
				for i := 0; i < 8; i++ {
					arr = store(arr, fmt.Sprintf("(+ %s %d)", n, i), bs[i])
				}
				vc.set(f.cur, "BufData", store(bd, b.T, arr))
				vc.set(f.cur, "BufLen", store(bl, b.T, "(+ "+n+" 8)"))
				return []Val{{"inil", "Iface"}}, true
			}
		}
		vc.noteUncontracted(name)
		f.havocReachable(c.Args)
		return f.freshResults(c, "binwrite"), true
	case "github.com/minio/highwayhash.New64":
		h := vc.fresh("hash64", "Iface")
		vc.assume(not(eq(h, "inil")))
		return []Val{{h, "Iface"}, {"inil", "Iface"}}, true
	case "(*sync.Once).Do":
		// the function runs at most once; effects: either nothing or the function's effects
		vc.noteUncontracted("sync.Once.Do body")
		f.havocAllExceptLocals()
		return nil, true
	}
	return nil, false
}

// fmtPrefix: the result of a formatting call starts with the literal text before the first verb.
func (f *Frame) fmtPrefix(res string, format ssa.Value) {
	k, ok := format.(*ssa.Const)
	if !ok || k.Value == nil {
		return
	}
	fs := constantString(k)
	pre := fs
	if i := strings.Index(fs, "%"); i >= 0 {
		pre = fs[:i]
	}
	if pre == "" {
		return
	}
	if len(pre) > 16 {
		pre = pre[:16]
	}
	vc := f.vc
	vc.assume(fmt.Sprintf("(>= (slen %s) %d)", res, len(pre)))
	for i := 0; i < len(pre); i++ {
		vc.assume(fmt.Sprintf("(= (sat %s %d) %d)", res, i, pre[i]))
	}
	vc.trust("fmt formatting: result starts with the literal prefix of the format string")
}

func constantString(k *ssa.Const) string {
	s := k.Value.ExactString()
	if u, err := unquote(s); err == nil {
		return u
	}
	return s
}

// variadicString: if the variadic slice holds exactly one element that is a boxed string, return its term.
func (f *Frame) variadicString(v ssa.Value) string {
	sl, ok := v.(*ssa.Slice)
	if !ok {
		return ""
	}
	al, ok := sl.X.(*ssa.Alloc)
	if !ok {
		return ""
	}
	arr, ok := al.Type().Underlying().(*types.Pointer).Elem().Underlying().(*types.Array)
	if !ok || arr.Len() != 1 {
		return ""
	}
	for _, ref := range *al.Referrers() {
		ia, ok := ref.(*ssa.IndexAddr)
		if !ok {
			continue
		}
		for _, r2 := range *ia.Referrers() {
			if st, ok := r2.(*ssa.Store); ok {
				if mi, ok := st.Val.(*ssa.MakeInterface); ok {
					if b, ok := mi.X.Type().Underlying().(*types.Basic); ok && b.Info()&types.IsString != 0 {
						return f.val(mi.X).T
					}
				}
			}
		}
	}
	return ""
}
