package main

import (
	"fmt"
	"go/token"
	"strings"

	"golang.org/x/tools/go/ssa"
)

// dyncall <func type> targets A, B, ...   (clause of the enclosing function's contract)
//
// A call through a func value of that type is proved to go to one of the named functions (obligation
// "dyntarget": the value is one of their addresses), and its effect is the targets' common contract; the targets
// must carry the same preconditions and frame and capture nothing; each target's postconditions are assumed
// under the condition that it is the one called.

func (f *Frame) dynTargets(c *ssa.CallCommon) ([]*ssa.Function, string, bool) {
	rc := f.rootContract()
	if rc == nil {
		return nil, "", false
	}
	ts := c.Value.Type().String()
	for _, d := range rc.DynCalls {
		i := strings.Index(d, " targets ")
		if i < 0 || strings.TrimSpace(d[:i]) != ts {
			continue
		}
		var out []*ssa.Function
		for _, n := range strings.Split(d[i+len(" targets "):], ",") {
			n = strings.TrimSpace(n)
			fn := f.findFuncByName(n)
			if fn == nil {
				f.vc.unbound = append(f.vc.unbound, fmt.Sprintf("%s: dyncall target %s not found", f.key, n))
				return nil, "", false
			}
			out = append(out, fn)
		}
		return out, ts, len(out) > 0
	}
	return nil, "", false
}

func (f *Frame) findFuncByName(name string) *ssa.Function {
	root := f.fn
	for root.Parent() != nil {
		root = root.Parent()
	}
	var walk func(fn *ssa.Function) *ssa.Function
	walk = func(fn *ssa.Function) *ssa.Function {
		if fn.Name() == name {
			return fn
		}
		for _, a := range fn.AnonFuncs {
			if r := walk(a); r != nil {
				return r
			}
		}
		return nil
	}
	if r := walk(root); r != nil {
		return r
	}
	if root.Pkg != nil {
		if m, ok := root.Pkg.Members[name].(*ssa.Function); ok {
			return m
		}
	}
	return nil
}

func contractText(ct *FuncContract) string {
	var sb strings.Builder
	for _, cs := range [][]*Clause{ct.Requires, ct.Modifies} {
		for _, c := range cs {
			sb.WriteString(c.Text)
			sb.WriteString("\n")
		}
		sb.WriteString("--\n")
	}
	fmt.Fprintf(&sb, "%v %v %v", ct.Pure, ct.HasModifies, ct.Trusted)
	return sb.String()
}

// tryDynTargets handles a dynamic call covered by a dyncall clause; ok=false when there is none.
func (f *Frame) tryDynTargets(c *ssa.CallCommon, fv Val, pos token.Pos) ([]Val, bool) {
	targets, ts, ok := f.dynTargets(c)
	if !ok {
		return nil, false
	}
	var alts []string
	var ct0 *FuncContract
	for _, t := range targets {
		if len(t.FreeVars) > 0 {
			f.vc.unbound = append(f.vc.unbound, fmt.Sprintf("%s: dyncall target %s captures variables", f.key, t.Name()))
			return nil, false
		}
		ct := f.p.contractFor(t)
		if ct == nil {
			f.vc.unbound = append(f.vc.unbound, fmt.Sprintf("%s: dyncall target %s has no contract", f.key, t.Name()))
			return nil, false
		}
		if ct0 == nil {
			ct0 = ct
		} else if contractText(ct) != contractText(ct0) {
			f.vc.unbound = append(f.vc.unbound, fmt.Sprintf("%s: dyncall targets of %s carry different contracts", f.key, ts))
			return nil, false
		}
		ct.Used = true
		alts = append(alts, eq(fv.T, f.val(t).T))
	}
	cond := alts[0]
	if len(alts) > 1 {
		cond = "(or " + strings.Join(alts, " ") + ")"
	}
	lbl := f.label("dyntarget", orDefault(f.exprText(pos, "call"), c.Value.Name()+"()"))
	f.assertObl("dyntarget", lbl, nil, f.guard, cond, f.p.posString(pos))
	var args []Val
	for _, a := range c.Args {
		args = append(args, f.val(a))
	}
	// frame and preconditions are common; each target's postconditions hold when it is the one called
	shared := *ct0
	shared.Ensures = nil
	res := f.applyContract(&shared, targets[0], args, c, pos)
	sig := c.Signature()
	for i, t := range targets {
		ct := f.p.contractFor(t)
		env := &Env{vc: f.vc, p: f.p, pkg: ct.Pkg, vars: map[string]Bound{}, state: f.cur, old: f.cur}
		for k, p := range t.Params {
			if k < len(args) {
				env.vars[p.Name()] = Bound{V: args[k], T: p.Type()}
			}
		}
		for k := 0; k < sig.Results().Len() && k < len(res); k++ {
			env.results = append(env.results, Bound{V: res[k], T: sig.Results().At(k).Type()})
		}
		for _, en := range ct.Ensures {
			tt, err := env.evalBool(en.Expr)
			if err != nil {
				f.vc.unbound = append(f.vc.unbound, fmt.Sprintf("%s: dyncall %s ensures: %v", f.key, ct.Key, err))
				continue
			}
			f.vc.assumeG(and(f.guard, alts[i]), tt)
		}
	}
	return res, true
}
