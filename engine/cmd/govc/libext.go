package main

// Library models added after the first engine version (kept apart from builtins.go).

import (
	"fmt"
	"go/token"
	"go/types"

	"golang.org/x/tools/go/ssa"
)

var libExt = map[string]func(f *Frame, c *ssa.CallCommon, args []Val, pos token.Pos) ([]Val, bool){}
var libExtWrites = map[string]func(f *Frame, c *ssa.CallCommon) ([]string, bool){}

func init() {
	libExt["encoding/json.Unmarshal"] = jsonUnmarshal
	libExtWrites["encoding/json.Unmarshal"] = func(f *Frame, c *ssa.CallCommon) ([]string, bool) {
		x := c.Args[1]
		if mi, ok := x.(*ssa.MakeInterface); ok {
			x = mi.X
		}
		cs, all := f.addrComps(x)
		return append(cs, "next"), all
	}
	libExt["encoding/json.Marshal"] = func(f *Frame, c *ssa.CallCommon, args []Val, pos token.Pos) ([]Val, bool) {
		f.vc.trust("encoding/json.Marshal has no effect on the modelled heap; the result is a newly allocated slice with unconstrained bytes")
		r := f.vc.allocRef(f.cur, "json_ref", f.guard)
		res := f.freshResults(c, "json_Marshal")
		if len(res) == 2 {
			f.vc.assume(implies(eq(res[1].T, "inil"), "(and (= (s-ref "+res[0].T+") "+r+") (= (s-off "+res[0].T+") 0))"))
		}
		return res, true
	}
	libExtWrites["encoding/json.Marshal"] = func(f *Frame, c *ssa.CallCommon) ([]string, bool) { return []string{"next"}, false }
}

// jsonUnmarshal(data, &v): on any bytes, v becomes *any* value of its Go type whose references are nil or freshly
// allocated (the decoder never aliases existing objects); never panics (trusted).
func jsonUnmarshal(f *Frame, c *ssa.CallCommon, args []Val, pos token.Pos) ([]Val, bool) {
	vc := f.vc
	vc.trust("encoding/json.Unmarshal: never panics; the target becomes any value of its Go type, references nil or fresh")
	x := c.Args[1]
	if mi, ok := x.(*ssa.MakeInterface); ok {
		x = mi.X
	}
	l, ok := f.locOf(x)
	if !ok {
		vc.noteUncontracted("encoding/json.Unmarshal (target not addressable in the model)")
		f.havocAllExceptLocals()
		return f.freshResults(c, "json_Unmarshal"), true
	}
	vc.regNext()
	before := vc.get(f.cur, "next")
	var refs []string
	freshOf := func(t types.Type) Val {
		s := vc.sortOf(t)
		v := Val{vc.fresh("json_v", s), s}
		vc.assume(vc.rangeFact(t, v.T))
		switch t.Underlying().(type) {
		case *types.Pointer, *types.Map, *types.Chan:
			vc.assume(fmt.Sprintf("(or (= %s 0) (>= %s %s))", v.T, v.T, before))
			refs = append(refs, v.T)
		case *types.Slice:
			vc.assume(fmt.Sprintf("(or (= (s-ref %s) 0) (>= (s-ref %s) %s))", v.T, v.T, before))
			refs = append(refs, "(s-ref "+v.T+")")
		}
		return v
	}
	switch l.kind {
	case "struct":
		for _, lf := range structLeaves(l.structT, nil) {
			name, ft := vc.regField(l.structT, lf.path)
			vc.set(f.cur, name, store(vc.get(f.cur, name), l.base, freshOf(ft).T))
		}
	case "field":
		_, ft := fieldComp(l.structT, l.path)
		if isStruct(ft) {
			for _, lf := range structLeaves(ft, nil) {
				p := append(append([]int{}, l.path...), lf.path...)
				name, lt := vc.regField(l.structT, p)
				vc.set(f.cur, name, store(vc.get(f.cur, name), l.base, freshOf(lt).T))
			}
		} else {
			vc.storeLoc(f.cur, l, freshOf(ft))
		}
	default:
		vc.storeLoc(f.cur, l, freshOf(l.typ))
	}
	// everything the decoder allocated lies between the old and the new allocation counter
	vc.havocComp(f.cur, "next")
	nn := vc.get(f.cur, "next")
	vc.assume(fmt.Sprintf("(>= %s %s)", nn, before))
	for _, r := range refs {
		vc.assume(fmt.Sprintf("(< %s %s)", r, nn))
	}
	// objects allocated by the decoder have arbitrary contents: components at fresh references are unconstrained already
	err := Val{vc.fresh("json_err", "Iface"), "Iface"}
	return []Val{err}, true
}

func init() {
	nonNilResults := func(f *Frame, c *ssa.CallCommon, args []Val, pos token.Pos) ([]Val, bool) {
		res := f.freshResults(c, "ctx")
		for _, r := range res {
			switch r.S {
			case "Iface":
				f.vc.assume(not(eq(r.T, "inil")))
			case "Int":
				f.vc.assume(fmt.Sprintf("(> %s 0)", r.T))
			}
		}
		f.vc.trust("context.WithCancel/WithTimeout/WithDeadline/Background return non-nil values")
		return res, true
	}
	for _, n := range []string{"context.WithCancel", "context.WithTimeout", "context.WithDeadline", "context.Background", "context.TODO", "context.WithValue"} {
		libExt[n] = nonNilResults
		libExtWrites[n] = func(f *Frame, c *ssa.CallCommon) ([]string, bool) { return []string{"next"}, false }
	}
}

func init() {
	pure := func(f *Frame, c *ssa.CallCommon, args []Val, pos token.Pos) ([]Val, bool) {
		f.vc.trust("reflect.DeepEqual has no effect on the modelled heap (result unconstrained)")
		return f.freshResults(c, "deepequal"), true
	}
	libExt["reflect.DeepEqual"] = pure
	libExtWrites["reflect.DeepEqual"] = func(f *Frame, c *ssa.CallCommon) ([]string, bool) { return nil, false }
}

// ---- encoding/asn1 (DER): only the TLV framing is modelled.
//   Marshal(v) = tag, length octets, content; header length derhdr(n) for content length n.
//   Unmarshal(b, &RawValue) yields Bytes = the content octets of the first TLV in b.

func derTerms(vc *VC, b Val) (clen, hdr string) {
	vc.declareFun("derclen", []string{"Int", "Int"}, "Int")
	vc.rawDecl("derhdr", "(define-fun derhdr ((n Int)) Int (ite (< n 128) 2 (ite (< n 256) 3 (ite (< n 65536) 4 5))))")
	clen = fmt.Sprintf("(derclen (s-ref %s) (s-off %s))", b.T, b.T)
	return clen, "(derhdr " + clen + ")"
}

func init() {
	libExt["encoding/asn1.Marshal"] = func(f *Frame, c *ssa.CallCommon, args []Val, pos token.Pos) ([]Val, bool) {
		vc := f.vc
		vc.trust("encoding/asn1.Marshal returns one DER TLV: len(result) = derhdr(contentLen) + contentLen, header 2 bytes iff contentLen < 128")
		r := vc.allocRef(f.cur, "asn1_ref", f.guard)
		res := f.freshResults(c, "asn1_Marshal")
		if len(res) == 2 {
			b := res[0]
			clen, hdr := derTerms(vc, b)
			vc.assume(implies(eq(res[1].T, "inil"), fmt.Sprintf("(and (>= %s 0) (= (s-len %s) (+ %s %s)) (not (= (s-ref %s) 0)))", clen, b.T, hdr, clen, b.T)))
			// a string field of the marshalled value is contained in the content octets
			vc.assume(implies(eq(res[1].T, "inil"), "(and (= (s-ref "+b.T+") "+r+") (= (s-off "+b.T+") 0))"))
		}
		return res, true
	}
	libExtWrites["encoding/asn1.Marshal"] = func(f *Frame, c *ssa.CallCommon) ([]string, bool) { return []string{"next"}, false }
	unm := func(f *Frame, c *ssa.CallCommon, args []Val, pos token.Pos) ([]Val, bool) {
		vc := f.vc
		x := c.Args[1]
		if mi, ok := x.(*ssa.MakeInterface); ok {
			x = mi.X
		}
		res := f.freshResults(c, "asn1_Unmarshal")
		pt, ok := x.Type().Underlying().(*types.Pointer)
		l, lok := f.locOf(x)
		if !ok || !lok {
			f.havocReachable(c.Args[1:2])
			return res, true
		}
		if pt.Elem().String() == "encoding/asn1.RawValue" && l.kind == "struct" {
			vc.trust("encoding/asn1.Unmarshal into a RawValue: Bytes are the content octets of the first TLV of the input")
			b := args[0]
			clen, hdr := derTerms(vc, b)
			comp := vc.regMem(types.Typ[types.Uint8])
			for _, lf := range structLeaves(l.structT, nil) {
				name, ft := vc.regField(l.structT, lf.path)
				fv := f.freshVal("asn1_rv", ft)
				st := l.structT.Underlying().(*types.Struct)
				if st.Field(lf.path[0]).Name() == "Bytes" {
					m := vc.get(f.cur, comp)
					ok := eq(res[1].T, "inil")
					vc.assume(implies(ok, fmt.Sprintf("(= (s-len %s) %s)", fv.T, clen)))
					vc.assume(implies(ok, fmt.Sprintf("(forall ((j Int)) (! (=> (and (<= 0 j) (< j %s)) (= (select (select %s (s-ref %s)) (sidx (s-off %s) j)) (select (select %s (s-ref %s)) (sidx (s-off %s) (+ %s j))))) :pattern ((select (select %s (s-ref %s)) (sidx (s-off %s) j)))))",
						clen, m, fv.T, fv.T, m, b.T, b.T, hdr, m, fv.T, fv.T)))
				}
				vc.set(f.cur, name, store(vc.get(f.cur, name), l.base, fv.T))
			}
			return res, true
		}
		// any other target: every field becomes an arbitrary value of its type (as for json)
		return jsonUnmarshal(f, c, args, pos)
	}
	libExt["encoding/asn1.Unmarshal"] = unm
	libExt["encoding/asn1.UnmarshalWithParams"] = unm
	w := func(f *Frame, c *ssa.CallCommon) ([]string, bool) {
		x := c.Args[1]
		if mi, ok := x.(*ssa.MakeInterface); ok {
			x = mi.X
		}
		cs, all := f.addrComps(x)
		return append(cs, "next"), all
	}
	libExtWrites["encoding/asn1.Unmarshal"] = w
	libExtWrites["encoding/asn1.UnmarshalWithParams"] = w
}

// Object identifiers are treated as values: Equal is a function of the two slice values (receptor never
// writes into an OID after building it).
func init() {
	m := libModel{uf: "asn1_OIDEqual", ret: "Bool", retGo: "bool"}
	libPure["(encoding/asn1.ObjectIdentifier).Equal"] = m
	libPure["asn1.OIDEqual"] = m
}

// bytes.Equal is named as a function of the two slice values (used to state which comparison decided; sound only
// where the compared memory is not written in between, which holds for pins and digests).
func init() {
	m := libModel{uf: "bytes_Equal", ret: "Bool", retGo: "bool"}
	libPure["bytes.Equal"] = m
}

// path.Join(a, b) with exactly two elements is named path_Join2(a, b) (same symbol as path.Join2 in contracts);
// other arities yield an arbitrary string.
func init() {
	h := func(f *Frame, c *ssa.CallCommon, args []Val, pos token.Pos) ([]Val, bool) {
		vc := f.vc
		res := f.freshResults(c, "path_Join")
		if len(args) == 1 && args[0].S == "Slice" && len(res) == 1 {
			comp := vc.regMem(types.Typ[types.String])
			m := vc.get(f.cur, comp)
			a := args[0].T
			e := func(i int) string {
				return sel(sel(m, "(s-ref "+a+")"), fmt.Sprintf("(sidx (s-off %s) %d)", a, i))
			}
			vc.declareFun("path_Join2", []string{"Str", "Str"}, "Str")
			vc.assume(implies(fmt.Sprintf("(= (s-len %s) 2)", a), eq(res[0].T, app("path_Join2", e(0), e(1)))))
		}
		return res, true
	}
	libExt["path.Join"] = h
	libExt["path/filepath.Join"] = h
	libExtWrites["path.Join"] = func(f *Frame, c *ssa.CallCommon) ([]string, bool) { return nil, false }
	libExtWrites["path/filepath.Join"] = func(f *Frame, c *ssa.CallCommon) ([]string, bool) { return nil, false }
}

// os.Exit, log.Fatal*: the activation ends here (the path is cut)
func init() {
	noret := func(f *Frame, c *ssa.CallCommon, args []Val, pos token.Pos) ([]Val, bool) {
		f.vc.assumeG(f.guard, "false")
		f.guard = "false" // nothing after this point is reached in this block
		f.vc.noReturnSeen = true
		return f.freshResults(c, "noreturn"), true
	}
	for _, n := range []string{"os.Exit", "log.Fatal", "log.Fatalf", "log.Fatalln"} {
		libExt[n] = noret
		libExtWrites[n] = func(f *Frame, c *ssa.CallCommon) ([]string, bool) { return nil, false }
	}
}
