package main

// Replay of counterexamples on the real code.
//
// A failed obligation of a function for which a replay recipe exists (replay_templates/<function key>.tmpl) is turned
// into candidate inputs and run against /repo with `go test -overlay` (nothing is written into the repository).
// Candidate inputs come from the solver's model of the failed query; because most queries contain quantified
// assumptions (for which the solvers give no model) the model is taken from the same query with the quantified
// assumptions removed.  That can only make more inputs look like counterexamples, never fewer, and it does not
// matter: the judge is the recipe's own oracle, plain Go code that checks the property on the real function for the
// candidate input and prints REPLAY-VIOLATION when it is broken.  Only then is the counterexample reported as
// reproduced; otherwise the VIOLATION line keeps its no-failing-input-found suffix.
//
// Recipe header (comment lines at the top of the template):
//   // PARAMS: <name>:<int|string|bytes|bool> ...   parameters of the function to take from the model
//   // FILE:   pkg/x/zz_replay_test.go              where the overlay places the test
//   // PKG:    ./pkg/x/
//   // RUN:    TestReplay
// Placeholders {{name}} are replaced by Go literals.

import (
	"encoding/json"
	"fmt"
	"os"
	"os/exec"
	"path/filepath"
	"strconv"
	"strings"
	"time"
)

type replayRecipe struct {
	terms          map[string]string // parameter name -> SMT term to read instead of the constant p_<name>
	mems           map[string]string // bytes parameter name -> memory array holding its contents (default: the entry memory)
	params         [][2]string
	file, pkg, run string
	text           string
}

func loadRecipe(fkey string) *replayRecipe {
	path := filepath.Join(verifRoot(), "replay_templates", sanitize(fkey)+".tmpl")
	data, err := os.ReadFile(path)
	if err != nil {
		return nil
	}
	r := &replayRecipe{text: string(data), run: "TestReplay"}
	for _, l := range strings.Split(string(data), "\n") {
		l = strings.TrimSpace(l)
		switch {
		case strings.HasPrefix(l, "// PARAMS:"):
			for _, f := range strings.Fields(strings.TrimPrefix(l, "// PARAMS:")) {
				kv := strings.SplitN(f, ":", 2)
				if len(kv) == 2 {
					kind, term := kv[1], ""
					if i := strings.Index(kind, "@"); i >= 0 {
						kind, term = kind[:i], strings.ReplaceAll(kind[i+1:], "~", " ") // "~" stands for a blank inside the term
					}
					// name:bytes@<slice term>@<memory term>: the contents are read from that version of the byte memory
					if i := strings.Index(term, "@"); i >= 0 {
						if r.mems == nil {
							r.mems = map[string]string{}
						}
						r.mems[kv[0]] = term[i+1:]
						term = term[:i]
					}
					r.params = append(r.params, [2]string{kv[0], kind})
					if term != "" {
						if r.terms == nil {
							r.terms = map[string]string{}
						}
						r.terms[kv[0]] = term
					}
				}
			}
		case strings.HasPrefix(l, "// FILE:"):
			r.file = strings.TrimSpace(strings.TrimPrefix(l, "// FILE:"))
		case strings.HasPrefix(l, "// PKG:"):
			r.pkg = strings.TrimSpace(strings.TrimPrefix(l, "// PKG:"))
		case strings.HasPrefix(l, "// RUN:"):
			r.run = strings.TrimSpace(strings.TrimPrefix(l, "// RUN:"))
		}
	}
	if r.file == "" || r.pkg == "" {
		return nil
	}
	return r
}

const replayMaxLen = 48

// candidateQuery: the failed query without quantified assumptions, asking for the values of the parameters.
func candidateQuery(vc *VC, o *Obligation, r *replayRecipe, block []string) (string, []string) {
	full := vc.emit(o, false)
	var b strings.Builder
	declared := map[string]bool{}
	for _, l := range strings.Split(full, "\n") {
		if strings.HasPrefix(l, "(assert") && (strings.Contains(l, "(forall ") || strings.Contains(l, "(exists ")) && !strings.HasPrefix(l, "(assert (not ") {
			continue
		}
		if l == "(check-sat)" {
			continue
		}
		if l == "(declare-fun sidx (Int Int) Int)" {
			// the defining axiom of sidx is quantified and dropped above; without a definition every array index of the
			// query would be free and the model would say nothing about contents
			b.WriteString("(define-fun sidx ((o Int) (i Int)) Int (+ o i))\n")
			declared["sidx"] = true
			continue
		}
		if strings.HasPrefix(l, "(declare-const ") || strings.HasPrefix(l, "(declare-fun ") {
			fs := strings.Fields(strings.NewReplacer("(", " ", ")", " ").Replace(l))
			if len(fs) >= 2 {
				declared[fs[1]] = true
			}
		}
		b.WriteString(l)
		b.WriteByte('\n')
	}
	// "prefix*" inside an explicit term stands for the first declared constant with that prefix (the names of
	// intermediate heap versions carry a running number)
	expand := func(t string) string {
		for strings.Contains(t, "*") {
			i := strings.Index(t, "*")
			j := strings.LastIndexAny(t[:i], " (") + 1
			prefix := t[j:i]
			best := ""
			for _, l := range strings.Split(full, "\n") {
				if strings.HasPrefix(l, "(declare-const "+prefix) {
					name := strings.Fields(strings.NewReplacer("(", " ", ")", " ").Replace(l))[1]
					if strings.HasSuffix(name, "__e0") { // the entry state has a fixed name; "*" asks for a later version
						continue
					}
					best = name
					break
				}
			}
			if best == "" {
				best = prefix + "_missing"
			}
			t = t[:j] + best + t[i+1:]
		}
		return t
	}
	for name, t := range r.terms {
		r.terms[name] = expand(t)
	}
	for name, t := range r.mems {
		r.mems[name] = expand(t)
		if !declared[r.mems[name]] {
			delete(r.mems, name) // no such version in this query: fall back to the entry memory
		}
	}
	var terms []string
	for _, pr := range r.params {
		c := r.termOf(pr[0])
		if _, override := r.terms[pr[0]]; !override && !declared[c] {
			continue
		}
		switch pr[1] {
		case "int", "bool":
			terms = append(terms, c)
		case "string":
			fmt.Fprintf(&b, "(assert (<= (slen %s) %d))\n", c, replayMaxLen)
			terms = append(terms, "(slen "+c+")")
			for i := 0; i < replayMaxLen; i++ {
				terms = append(terms, fmt.Sprintf("(sat %s %d)", c, i))
			}
		case "bytes":
			fmt.Fprintf(&b, "(assert (<= (s-len %s) %d))\n", c, replayMaxLen)
			terms = append(terms, "(s-len "+c+")")
			if mem := r.memOf(pr[0]); declared[mem] {
				for i := 0; i < replayMaxLen; i++ {
					t := fmt.Sprintf("(select (select %s (s-ref %s)) (+ (s-off %s) %d))", mem, c, c, i)
					fmt.Fprintf(&b, "(assert (and (<= 0 %s) (< %s 256)))\n", t, t) // the byte range axiom is quantified too
					terms = append(terms, t)
				}
			}
		}
	}
	for _, bl := range block {
		b.WriteString(bl + "\n")
	}
	b.WriteString("(check-sat)\n")
	if len(terms) > 0 {
		b.WriteString("(get-value (" + strings.Join(terms, " ") + "))\n")
	}
	return b.String(), terms
}



func parseValues(out string, terms []string) map[string]string {
	vals := map[string]string{}
	norm := func(s string) string { return strings.Join(strings.Fields(s), " ") }
	text := norm(out)
	for _, t := range terms {
		nt := norm(t)
		i := strings.Index(text, "("+nt+" ")
		if i < 0 {
			continue
		}
		rest := text[i+len(nt)+2:]
		j := strings.Index(rest, ")")
		if j < 0 {
			continue
		}
		v := strings.TrimSpace(rest[:j])
		if strings.HasPrefix(v, "(- ") { // (- 5)
			k := strings.Index(rest[j+1:], ")")
			_ = k
			v = "-" + strings.TrimSpace(strings.TrimPrefix(v, "(- "))
		}
		vals[t] = v
	}
	return vals
}

func goLiteral(kind, c string, vals map[string]string, mem string) (string, bool) {
	atoi := func(s string) int {
		n, _ := strconv.Atoi(s)
		return n
	}
	switch kind {
	case "int":
		v, ok := vals[c]
		return v, ok
	case "bool":
		v, ok := vals[c]
		return v, ok
	case "string", "bytes":
		lt := "(slen " + c + ")"
		if kind == "bytes" {
			lt = "(s-len " + c + ")"
		}
		ls, ok := vals[lt]
		if !ok {
			return "", false
		}
		n := atoi(ls)
		if n < 0 || n > replayMaxLen {
			return "", false
		}
		bs := make([]string, n)
		for i := 0; i < n; i++ {
			var t string
			if kind == "string" {
				t = fmt.Sprintf("(sat %s %d)", c, i)
			} else {
				t = fmt.Sprintf("(select (select %s (s-ref %s)) (+ (s-off %s) %d))", mem, c, c, i)
			}
			x := atoi(vals[t])
			if x < 0 || x > 255 {
				x = ((x % 256) + 256) % 256
			}
			bs[i] = strconv.Itoa(x)
		}
		lit := "[]byte{" + strings.Join(bs, ", ") + "}"
		if kind == "string" {
			return "string(" + lit + ")", true
		}
		return lit, true
	}
	return "", false
}

// replay turns a failed obligation into a run of the real code when a recipe exists for its function.
func (p *Program) replay(dir string, o *Obligation, it *OblResult, model, reason string) (string, bool) {
	path := writeReplayFile(dir, o, it, reason)
	if model != "" {
		os.WriteFile(path+".model.txt", []byte(model), 0o644)
	}
	r := loadRecipe(o.Func)
	if r == nil || it == nil || it.VC == nil {
		return path, false
	}
	var block []string
	var tried []map[string]string
	for attempt := 0; attempt < 4; attempt++ {
		q, terms := candidateQuery(it.VC, o, r, block)
		qf := path + fmt.Sprintf(".candidate%d.smt2", attempt)
		os.WriteFile(qf, []byte(q), 0o644)
		out, _ := exec.Command("z3-new", "-T:15", qf).CombinedOutput()
		os.Remove(qf)
		if !strings.HasPrefix(strings.TrimSpace(string(out)), "sat") {
			break
		}
		vals := parseValues(string(out), terms)
		inputs := map[string]string{}
		text := r.text
		ok := true
		var differ []string
		for _, pr := range r.params {
			lit, have := goLiteral(pr[1], r.termOf(pr[0]), vals, r.memOf(pr[0]))
			if !have {
				// parameter not constrained by the query: a neutral value
				lit = map[string]string{"int": "0", "bool": "false", "string": `""`, "bytes": "[]byte{}"}[pr[1]]
			}
			inputs[pr[0]] = lit
			text = strings.ReplaceAll(text, "{{"+pr[0]+"}}", lit)
			switch pr[1] {
			case "int":
				if v, ok := vals[r.termOf(pr[0])]; ok {
					differ = append(differ, fmt.Sprintf("(not (= %s %s))", r.termOf(pr[0]), smtIntStr(v)))
				}
			case "string":
				if v, ok := vals["(slen "+r.termOf(pr[0])+")"]; ok {
					differ = append(differ, fmt.Sprintf("(not (= (slen %s) %s))", r.termOf(pr[0]), v))
				}
			case "bytes":
				if v, ok := vals["(s-len "+r.termOf(pr[0])+")"]; ok {
					differ = append(differ, fmt.Sprintf("(not (= (s-len %s) %s))", r.termOf(pr[0]), v))
				}
			}
		}
		if !ok {
			break
		}
		tried = append(tried, inputs)
		testFile := strings.TrimSuffix(path, ".json") + fmt.Sprintf("_replay%d_test.go", attempt)
		os.WriteFile(testFile, []byte(text), 0o644)
		ov := strings.TrimSuffix(path, ".json") + ".overlay.json"
		ovData, _ := json.Marshal(map[string]map[string]string{"Replace": {filepath.Join(p.repo, r.file): testFile}})
		os.WriteFile(ov, ovData, 0o644)
		cmd := exec.Command("go", "test", "-overlay", ov, "-vet=off", "-count=1", "-timeout", "60s", "-run", "^"+r.run+"$", r.pkg)
		cmd.Dir = p.repo
		cmd.Env = append(os.Environ(), "GOFLAGS=-mod=mod", "GOPROXY=off", "GOSUMDB=off", "GOTOOLCHAIN=local")
		done := make(chan []byte, 1)
		go func() { b, _ := cmd.CombinedOutput(); done <- b }()
		var res []byte
		select {
		case res = <-done:
		case <-time.After(120 * time.Second):
			if cmd.Process != nil {
				cmd.Process.Kill()
			}
			res = []byte("replay timed out")
		}
		if strings.Contains(string(res), "REPLAY-VIOLATION") {
			rec := map[string]interface{}{}
			if data, err := os.ReadFile(path); err == nil {
				json.Unmarshal(data, &rec)
			}
			rec["replayed"] = true
			rec["replay_inputs"] = inputs
			rec["replay_test"] = testFile
			rec["replay_cmd"] = fmt.Sprintf("cd %s && go test -overlay %s -vet=off -count=1 -run '^%s$' %s", p.repo, ov, r.run, r.pkg)
			rec["replay_output"] = truncate(string(res), 3000)
			rec["candidate_source"] = "model of the failed query without its quantified assumptions; judged by the recipe's oracle on the real code"
			data, _ := json.MarshalIndent(rec, "", " ")
			os.WriteFile(path, data, 0o644)
			return path, true
		}
		os.Remove(testFile)
		os.Remove(ov)
		if len(differ) == 0 {
			break
		}
		block = append(block, "(assert (or "+strings.Join(differ, " ")+"))")
	}
	if len(tried) > 0 {
		rec := map[string]interface{}{}
		if data, err := os.ReadFile(path); err == nil {
			json.Unmarshal(data, &rec)
		}
		rec["replay_candidates_tried"] = tried
		data, _ := json.MarshalIndent(rec, "", " ")
		os.WriteFile(path, data, 0o644)
	}
	return path, false
}

func smtIntStr(v string) string {
	if strings.HasPrefix(v, "-") {
		return "(- " + strings.TrimPrefix(v, "-") + ")"
	}
	return v
}

func (r *replayRecipe) termOf(name string) string {
	if t, ok := r.terms[name]; ok {
		return t
	}
	return "p_" + name
}

func (r *replayRecipe) memOf(name string) string {
	if m, ok := r.mems[name]; ok {
		return m
	}
	return "Mem_uint8__e0"
}
