package main

import (
	"fmt"
	"go/token"
	"go/types"
	"strings"

	"golang.org/x/tools/go/ssa"
)

// Blocking sites.  `site block * LABEL: requires <expr>` in a function contract is checked at every operation of the
// function at which the goroutine can block: a select without default, a plain receive and a plain send.  Inside
// the condition waits(ch) says that ch is one of the channels the operation waits on.  The typical obligation is
// waits(ctxdone(c)): cancelling c wakes the goroutine, so it cannot block for ever once c is cancelled (the
// safety half of "the goroutine exits").

func (f *Frame) siteBlock(chans []string, pos token.Pos, what string) {
	rc := f.rootContract()
	if rc == nil || f.inHelper() {
		return
	}
	for _, s := range rc.Sites {
		if s.Kind != "block" {
			continue
		}
		f.blockChans = chans
		env := f.envAt(f.cur, nil)
		t, err := env.evalBool(s.Expr)
		f.blockChans = nil
		if err != nil {
			f.vc.unbound = append(f.vc.unbound, fmt.Sprintf("%s: site block: %v", f.key, err))
			continue
		}
		lbl := f.label("site", "block:"+what+":"+s.Label)
		f.assertObl("site", lbl, s.Tags, f.guard, t, f.p.posString(pos))
	}
}

func init() {
	extCalls["waits"] = func(e *Env, x *Expr) (Bound, error) {
		if len(x.Args) != 1 {
			return Bound{}, fmt.Errorf("waits(ch)")
		}
		if e.f == nil {
			return Bound{}, fmt.Errorf("waits() outside a block site")
		}
		a, err := e.eval(x.Args[0])
		if err != nil {
			return Bound{}, err
		}
		var alts []string
		for _, c := range e.f.root().blockChansOf(e.f) {
			alts = append(alts, eq(a.V.T, c))
		}
		t := "false"
		if len(alts) == 1 {
			t = alts[0]
		} else if len(alts) > 1 {
			t = "(or " + strings.Join(alts, " ") + ")"
		}
		return Bound{V: Val{t, "Bool"}, T: types.Typ[types.Bool]}, nil
	}
}

func (r *Frame) blockChansOf(f *Frame) []string { return f.blockChans }

// selected(i): the most recent select executed by this activation chose case i (source order, 0-based)
func init() {
	extCalls["selected"] = func(e *Env, x *Expr) (Bound, error) {
		if len(x.Args) != 1 {
			return Bound{}, fmt.Errorf("selected(i)")
		}
		a, err := e.eval(x.Args[0])
		if err != nil {
			return Bound{}, err
		}
		e.vc.regComp("Own_LastSelect", "Int")
		return Bound{V: Val{eq(e.vc.get(e.state, "Own_LastSelect"), a.V.T), "Bool"}, T: types.Typ[types.Bool]}, nil
	}
}

// site send * LABEL: requires <expr over value, ch>: checked at every send of the function (plain or in a select,
// then under the condition that the send case is the one taken).  ownsentbytes() is the total length of the byte
// slices this activation has sent so far.
func (f *Frame) siteSend(ch ssa.Value, c, v Val, pos token.Pos, cond string) {
	vc := f.vc
	rc := f.rootContract()
	if rc != nil && !f.inHelper() {
		for _, s := range rc.Sites {
			if s.Kind != "send" {
				continue
			}
			env := f.envAt(f.cur, nil)
			ct := ch.Type().Underlying().(*types.Chan)
			env.vars["value"] = Bound{V: v, T: ct.Elem()}
			env.vars["ch"] = Bound{V: c, T: ch.Type()}
			t, err := env.evalBool(s.Expr)
			if err != nil {
				vc.unbound = append(vc.unbound, fmt.Sprintf("%s: site send: %v", f.key, err))
				continue
			}
			g := f.guard
			if cond != "true" {
				g = and(g, cond)
			}
			lbl := f.label("site", "send:"+s.Label)
			f.assertObl("site", lbl, s.Tags, g, t, f.p.posString(pos))
		}
	}
	if v.S == "Slice" {
		vc.regComp("Own_SendBytes", "Int")
		n := vc.get(f.cur, "Own_SendBytes")
		vc.set(f.cur, "Own_SendBytes", ite(cond, fmt.Sprintf("(+ %s (s-len %s))", n, v.T), n))
	}
}

func init() {
	extCalls["ownsentbytes"] = func(e *Env, x *Expr) (Bound, error) {
		e.vc.regComp("Own_SendBytes", "Int")
		return Bound{V: Val{e.vc.get(e.state, "Own_SendBytes"), "Int"}, T: types.Typ[types.Int64]}, nil
	}
}

// site continue <loop key | #n> LABEL: requires <expr>: must hold on every back edge of that loop, i.e. whenever the
// loop goes round again (evaluated with the values of the iteration that ends; nothing is assumed from it at the
// loop head, so locals of the body may be mentioned).  Typical use: "the loop continues only while the work is not
// complete" - the converse of an exit condition.
func (f *Frame) siteContinue(li *loopInfo, latch *ssa.BasicBlock, guard string, st *State) {
	rc := f.rootContract()
	if rc == nil || f.contract == nil {
		return
	}
	for _, s := range rc.Sites {
		if s.Kind != "continue" || !(s.Pattern == li.key || s.Pattern == fmt.Sprintf("#%d", li.ordinal)) {
			continue
		}
		savedBlock := f.curBlock
		f.curBlock = latch
		env := f.envAt(st, nil)
		t, err := env.evalBool(s.Expr)
		f.curBlock = savedBlock
		if err != nil {
			f.vc.unbound = append(f.vc.unbound, fmt.Sprintf("%s: site continue %s: %v", f.key, s.Pattern, err))
			continue
		}
		lbl := f.label("site", "continue:"+s.Pattern+":"+s.Label)
		f.assertObl("site", lbl, s.Tags, guard, t, "")
	}
}

// site exit <loop key | #n> LABEL: requires <expr>: must hold whenever the loop is left through its own exit
// condition (an edge from the loop header to a block outside the loop; `return` and `break` inside the body are not
// exits in this sense).  Typical use: "the loop stops only after the last element / the full budget was used".
func (f *Frame) siteExit(b *ssa.BasicBlock, si int, succ *ssa.BasicBlock) {
	rc := f.rootContract()
	if rc == nil || f.contract == nil {
		return
	}
	li := f.loops[b.Index]
	if li == nil || li.header != b || li.blocks[succ.Index] {
		return
	}
	for _, s := range rc.Sites {
		if s.Kind != "exit" || !(s.Pattern == li.key || s.Pattern == fmt.Sprintf("#%d", li.ordinal)) {
			continue
		}
		guard := and(f.endGuard[b.Index], f.edgeCondOf(b, si))
		env := f.envAt(f.endState[b.Index], nil)
		t, err := env.evalBool(s.Expr)
		if err != nil {
			f.vc.unbound = append(f.vc.unbound, fmt.Sprintf("%s: site exit %s: %v", f.key, s.Pattern, err))
			continue
		}
		lbl := f.label("site", "exit:"+s.Pattern+":"+s.Label)
		f.assertObl("site", lbl, s.Tags, guard, t, "")
	}
}

// loopphi(k): the k-th loop-carried variable (phi) of the loop an invariant belongs to, whatever it is called in
// the source; lets an invariant about the induction variable survive a renaming of that variable.
func init() {
	extCalls["loopphi"] = func(e *Env, x *Expr) (Bound, error) {
		if len(x.Args) != 1 || x.Args[0].Op != "int" {
			return Bound{}, fmt.Errorf("loopphi(k)")
		}
		if e.loop == nil || e.f == nil {
			return Bound{}, fmt.Errorf("loopphi outside a loop invariant")
		}
		k := 0
		fmt.Sscanf(x.Args[0].Name, "%d", &k)
		if k < 0 || k >= len(e.loop.phis) {
			return Bound{}, fmt.Errorf("the loop has %d loop-carried variables", len(e.loop.phis))
		}
		ph := e.loop.phis[k]
		return Bound{V: e.f.vals[ph], T: ph.Type()}, nil
	}
}

// captured("name"): the value of a local or captured variable whose name collides with a contract keyword
// (a variable called "result").
func init() {
	extCalls["captured"] = func(e *Env, x *Expr) (Bound, error) {
		if len(x.Args) != 1 || x.Args[0].Op != "str" {
			return Bound{}, fmt.Errorf("captured(\"name\")")
		}
		if e.lookup != nil {
			if b, ok := e.lookup(x.Args[0].Name); ok {
				return b, nil
			}
		}
		return Bound{}, fmt.Errorf("unknown variable %q", x.Args[0].Name)
	}
}

// blocking(): inside a `site send` condition, the send waits until it can proceed (a plain send, or a case of a
// select without default); false for a send that is dropped when the receiver is not ready.
func init() {
	extCalls["blocking"] = func(e *Env, x *Expr) (Bound, error) {
		if e.f == nil {
			return Bound{}, fmt.Errorf("blocking() outside a send site")
		}
		t := "true"
		if e.f.sendNonBlocking {
			t = "false"
		}
		return Bound{V: Val{t, "Bool"}, T: types.Typ[types.Bool]}, nil
	}
}

// calleeis("full name"): inside a `site call` condition, the function actually called is exactly that one (e.g.
// the package-level jwt.ParseWithClaims with its default validation, not a method of a differently configured parser
// that happens to have the same name).
func init() {
	extCalls["calleeis"] = func(e *Env, x *Expr) (Bound, error) {
		if len(x.Args) != 1 || x.Args[0].Op != "str" || e.f == nil {
			return Bound{}, fmt.Errorf("calleeis(\"full name\")")
		}
		t := "false"
		if e.f.siteCallee == x.Args[0].Name {
			t = "true"
		}
		return Bound{V: Val{t, "Bool"}, T: types.Typ[types.Bool]}, nil
	}
}

// inHelper: this frame executes a top-level helper function in place of a call (not the function under contract and
// not one of its closures); the site conditions of the enclosing contract do not apply to it.
func (f *Frame) inHelper() bool { return f.parent != nil && f.fn.Parent() == nil }
