package main

import (
	"fmt"
	"go/token"
	"go/types"
	"strings"
)

// Blocking sites.  `site block * LABEL: requires <expr>` in a function contract is checked at every operation of the
// function at which the goroutine can block: a select without default, a plain receive and a plain send.  Inside
// the condition waits(ch) says that ch is one of the channels the operation waits on.  The typical obligation is
// waits(ctxdone(c)): cancelling c wakes the goroutine, so it cannot block for ever once c is cancelled (the
// safety half of "the goroutine exits").

func (f *Frame) siteBlock(chans []string, pos token.Pos, what string) {
	rc := f.rootContract()
	if rc == nil {
		return
	}
	for _, s := range rc.Sites {
		if s.Kind != "block" {
			continue
		}
		f.blockChans = chans
		env := f.envAt(f.cur, nil)
		t, err := env.evalBool(s.Expr)
		f.blockChans = nil
		if err != nil {
			f.vc.unbound = append(f.vc.unbound, fmt.Sprintf("%s: site block: %v", f.key, err))
			continue
		}
		lbl := f.label("site", "block:"+what+":"+s.Label)
		f.assertObl("site", lbl, s.Tags, f.guard, t, f.p.posString(pos))
	}
}

func init() {
	extCalls["waits"] = func(e *Env, x *Expr) (Bound, error) {
		if len(x.Args) != 1 {
			return Bound{}, fmt.Errorf("waits(ch)")
		}
		if e.f == nil {
			return Bound{}, fmt.Errorf("waits() outside a block site")
		}
		a, err := e.eval(x.Args[0])
		if err != nil {
			return Bound{}, err
		}
		var alts []string
		for _, c := range e.f.root().blockChansOf(e.f) {
			alts = append(alts, eq(a.V.T, c))
		}
		t := "false"
		if len(alts) == 1 {
			t = alts[0]
		} else if len(alts) > 1 {
			t = "(or " + strings.Join(alts, " ") + ")"
		}
		return Bound{V: Val{t, "Bool"}, T: types.Typ[types.Bool]}, nil
	}
}

func (r *Frame) blockChansOf(f *Frame) []string { return f.blockChans }

// selected(i): the most recent select executed by this activation chose case i (source order, 0-based)
func init() {
	extCalls["selected"] = func(e *Env, x *Expr) (Bound, error) {
		if len(x.Args) != 1 {
			return Bound{}, fmt.Errorf("selected(i)")
		}
		a, err := e.eval(x.Args[0])
		if err != nil {
			return Bound{}, err
		}
		e.vc.regComp("Own_LastSelect", "Int")
		return Bound{V: Val{eq(e.vc.get(e.state, "Own_LastSelect"), a.V.T), "Bool"}, T: types.Typ[types.Bool]}, nil
	}
}
