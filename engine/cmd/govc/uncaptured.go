package main

// A contract of a closure may name a variable of the enclosing function.  When the closure captures it, the name is
// resolved through the free variable.  When the enclosing function still has a variable of that name but this closure
// does not capture it, the closure cannot be shown to use that value: the name then stands for an unconstrained value
// of the variable's type, so a condition such as waits(ctxdone(ctxPing)) is an obligation that fails instead of one that
// cannot be evaluated.  A name that exists nowhere in the enclosing functions (a renamed variable) stays unknown and the
// clause is reported as not evaluable, as before.

import (
	"go/ast"
	"go/types"
	"sync"

	"golang.org/x/tools/go/ssa"
)

var uncapturedMemo sync.Map // *VC -> map[string]Bound

func parentLocalType(fn *ssa.Function, name string) types.Type {
	for p := fn.Parent(); p != nil; p = p.Parent() {
		for _, pa := range p.Params {
			if pa.Name() == name {
				return pa.Type()
			}
		}
		for _, fv := range p.FreeVars {
			if fv.Name() == name {
				if pt, ok := fv.Type().Underlying().(*types.Pointer); ok {
					return pt.Elem()
				}
			}
		}
		for _, b := range p.Blocks {
			for _, in := range b.Instrs {
				switch x := in.(type) {
				case *ssa.Alloc:
					if x.Comment == name {
						return x.Type().Underlying().(*types.Pointer).Elem()
					}
				case *ssa.DebugRef:
					if id, ok := x.Expr.(*ast.Ident); ok && id.Name == name {
						if x.IsAddr {
							if pt, ok := x.X.Type().Underlying().(*types.Pointer); ok {
								return pt.Elem()
							}
						} else {
							return x.X.Type()
						}
					}
				}
			}
		}
	}
	return nil
}

func (e *Env) uncapturedParentLocal(name string) (Bound, bool) {
	if e.f == nil || e.f.fn == nil || e.f.fn.Parent() == nil {
		return Bound{}, false
	}
	t := parentLocalType(e.f.fn, name)
	if t == nil {
		return Bound{}, false
	}
	m, _ := uncapturedMemo.LoadOrStore(e.vc, map[string]Bound{})
	mm := m.(map[string]Bound)
	if b, ok := mm[name]; ok {
		return b, true
	}
	b := Bound{V: e.f.freshVal("uncaptured_"+name, t), T: t}
	mm[name] = b
	return b, true
}
