package main

import (
	"fmt"
	"go/token"
	"go/types"

	"golang.org/x/tools/go/ssa"
)

// sync.Once: ghost component OnceDone[o].  o.Do(f) runs f when OnceDone[o] is false and sets it; other goroutines can
// only move it from false to true, so before the call its value is (old or anything).  oncedone(o) reads it in contracts.

func onceComp(vc *VC) string {
	vc.regComp("OnceDone", "(Array Int Bool)")
	return "OnceDone"
}

func init() {
	libExt["(*sync.Once).Do"] = func(f *Frame, c *ssa.CallCommon, args []Val, pos token.Pos) ([]Val, bool) {
		vc := f.vc
		var fn *ssa.Function
		var binds []Val
		switch x := c.Args[1].(type) {
		case *ssa.MakeClosure:
			fn = x.Fn.(*ssa.Function)
			for _, b := range x.Bindings {
				binds = append(binds, f.val(b))
			}
		case *ssa.Function:
			fn = x
		}
		comp := onceComp(vc)
		o := args[0].T
		done := vc.define("once_done", Val{sel(vc.get(f.cur, comp), o), "Bool"}).T
		if fn == nil || fn.Blocks == nil || f.depth >= 4 {
			vc.noteUncontracted("sync.Once.Do body")
			f.havocAllExceptLocals()
			vc.regComp(comp, "(Array Int Bool)")
			vc.set(f.cur, comp, store(vc.get(f.cur, comp), o, "true"))
			return nil, true
		}
		before := f.cur.clone()
		saved := f.guard
		g2 := and(saved, not(done))
		nf := newFrame(vc, f.p, fn, f)
		nf.entry = f.entry
		for i, fv := range fn.FreeVars {
			if i < len(binds) {
				nf.freeVars[fv] = binds[i]
			}
		}
		_, st, g := nf.run(nil, f.cur, g2)
		vc.assumeG(g2, g)
		f.cur = vc.mergeStates([]*State{before, st}, []string{done, not(done)})
		f.guard = saved
		vc.set(f.cur, comp, store(vc.get(f.cur, comp), o, "true"))
		return nil, true
	}
	libExtWrites["(*sync.Once).Do"] = func(f *Frame, c *ssa.CallCommon) ([]string, bool) { return nil, true }
	extCalls["oncedone"] = func(e *Env, x *Expr) (Bound, error) {
		if len(x.Args) != 1 {
			return Bound{}, fmt.Errorf("oncedone(o)")
		}
		b, err := e.eval(x.Args[0])
		if err != nil {
			return Bound{}, err
		}
		comp := onceComp(e.vc)
		return Bound{V: Val{sel(e.vc.get(e.state, comp), b.V.T), "Bool"}, T: types.Typ[types.Bool]}, nil
	}
}

// rely <expr> (function contract): a condition every other piece of code maintains; it is assumed at entry and again
// after every call to code without a contract.  It is an assumption and is listed as such in the evidence.
func (f *Frame) assumeRely() {
	r := f.root()
	if r.contract == nil || len(r.contract.Extra["rely"]) == 0 || f != r {
		return
	}
	env := f.envAt(f.cur, nil)
	for _, c := range r.contract.Extra["rely"] {
		t, err := env.evalBool(c.Expr)
		if err != nil {
			f.vc.unbound = append(f.vc.unbound, fmt.Sprintf("%s: rely %s: %v", f.key, c.Label, err))
			continue
		}
		f.vc.assumeG(f.guard, t)
		f.vc.trust(fmt.Sprintf("rely in %s: %s", f.key, c.Text))
	}
}
