package main

import (
	"fmt"
	"go/types"
)

// Fields protected by a lock that this activation holds exclusively (Held = 2) keep their value across a call to
// code without a contract: a callee running in this goroutine cannot take the lock again (it would deadlock: the
// "no re-acquisition" obligation of every function under contract), other goroutines cannot take it at all, and
// every write to a protected field requires the lock (lockset obligation).  The rule is an assumption for callees
// that are not under contract themselves and is listed as such.  For a protected map the set of keys and the values
// of the map object the field refers to are kept as well.
func (f *Frame) keepHeldProtected(old *State) {
	vc := f.vc
	for pkg, cf := range f.p.contracts {
		for _, m := range cf.Monitors {
			st := f.p.lookupType(pkg, m.RecvType)
			if st == nil {
				continue
			}
			held := heldComp(st, m.Lock)
			if _, ok := vc.comps[held]; !ok {
				continue
			}
			h := vc.get(f.cur, held) // activation-local: unchanged by the havoc
			if h == "((as const (Array Int Int)) 0)" {
				continue
			}
			used := false
			for _, pf := range m.Protects {
				path, ft, ok := findField(st, pf)
				if !ok || isStruct(ft) {
					continue
				}
				n, _ := vc.regField(st, path)
				if _, ok := vc.comps[n]; !ok {
					continue
				}
				o, nw := vc.get(old, n), vc.get(f.cur, n)
				if o == nw {
					continue
				}
				used = true
				vc.assume(fmt.Sprintf("(forall ((r Int)) (! (=> (= (select %s r) 2) (= (select %s r) (select %s r))) :pattern ((select %s r))))", h, nw, o, nw))
				if mt, ok := ft.Underlying().(*types.Map); ok {
					has, val := vc.regMap(mt)
					for _, c := range []string{has, val} {
						oc, nc := vc.get(old, c), vc.get(f.cur, c)
						if oc == nc {
							continue
						}
						vc.assume(fmt.Sprintf("(forall ((r Int)) (! (=> (= (select %s r) 2) (= (select %s (select %s r)) (select %s (select %s r)))) :pattern ((select %s (select %s r)))))", h, nc, o, oc, o, nc, nw))
					}
				}
			}
			if used {
				vc.trust("fields protected by " + m.RecvType + "." + m.Lock + " are not written by uncontracted callees while this activation holds the lock exclusively")
			}
		}
	}
}
