package main

import (
	"fmt"
	"strings"
)

// lemmaObligations: lemmas over contracts (spec functions shared with the contracts tie them to the code).
func (p *Program) lemmaObligations(id string) ([]OblResult, []string, error) {
	var out []OblResult
	var assumptions []string
	for pkg, cf := range p.contracts {
		for _, lm := range cf.Lemmas {
			if !hasTag(lm.Tags, id) {
				continue
			}
			vc := newVC(p, "lemma#"+lm.Name)
			vc.comps = map[string]compInfo{}
			lst := newState()
			lst.epoch = nextEpoch() // not the entry epoch: results of used contracts live in the same abstract state
			env := &Env{vc: vc, p: p, pkg: pkg, vars: map[string]Bound{}, state: lst, old: lst}
			for _, v := range lm.Vars {
				s, t, err := env.sortOfTypeName(v.Type)
				if err != nil {
					return nil, nil, fmt.Errorf("lemma %s: %v", lm.Name, err)
				}
				n := "lv_" + v.Name
				vc.declare(n, s)
				env.vars[v.Name] = Bound{V: Val{n, s}, T: t}
				if t != nil {
					vc.assume(vc.rangeFact(t, n))
				}
			}
			if lm.Raw != "" {
				vc.decls = append(vc.decls, lm.Raw)
			}
			for _, u := range lm.Uses {
				if err := p.lemmaUse(vc, env, pkg, cf, u); err != nil {
					return nil, nil, fmt.Errorf("lemma %s use %q: %v", lm.Name, u, err)
				}
			}
			for _, h := range lm.Hyps {
				t, err := env.evalBool(h.Expr)
				if err != nil {
					return nil, nil, fmt.Errorf("lemma %s hyp %s: %v", lm.Name, h.Label, err)
				}
				vc.assume(t)
			}
			vc.addObl(&Obligation{Name: "lemma#" + lm.Name + ":hyps-satisfiable", Kind: "cover", Tags: lm.Tags, Guard: "true", Cond: "false", Cover: true})
			for i, s := range lm.Show {
				t, err := env.evalBool(s.Expr)
				if err != nil {
					return nil, nil, fmt.Errorf("lemma %s show %s: %v", lm.Name, s.Label, err)
				}
				lbl := s.Label
				if lbl == "" {
					lbl = fmt.Sprintf("S%d", i+1)
				}
				vc.addObl(&Obligation{Name: "lemma#" + lm.Name + ":" + lbl, Kind: "lemma", Tags: lm.Tags, Guard: "true", Cond: t})
			}
			for _, o := range vc.obls {
				out = append(out, OblResult{Obl: o, VC: vc})
			}
			for _, tr := range lm.Trust {
				assumptions = append(assumptions, "lemma "+lm.Name+": "+strings.TrimSpace(tr))
			}
			for a := range vc.assumptions {
				assumptions = append(assumptions, a)
			}
		}
	}
	return out, assumptions, nil
}

// lemmaUse: "F(a, b) as r[, r2]" assumes the postconditions of contract F (the lemma is then a statement over contracts).
func (p *Program) lemmaUse(vc *VC, env *Env, pkg string, cf *ContractFile, text string) error {
	i := strings.LastIndex(text, " as ")
	if i < 0 {
		return fmt.Errorf("expected 'F(args) as r'")
	}
	call, err := parseExpr(strings.TrimSpace(text[:i]))
	if err != nil {
		return err
	}
	if call.Op != "call" {
		return fmt.Errorf("expected a call")
	}
	rnames := strings.Split(strings.ReplaceAll(text[i+4:], " ", ""), ",")
	key := call.Name
	ct := cf.Funcs[key]
	fn := p.funcs[pkg+"."+key]
	if ct == nil || fn == nil {
		// method contracts are written F = "(*T).m": allow the short form T.m
		for k, c := range cf.Funcs {
			if strings.HasSuffix(k, ")."+key) || k == key {
				ct, fn = c, p.funcs[pkg+"."+k]
			}
		}
	}
	if ct == nil || fn == nil {
		return fmt.Errorf("no contract/function %s", key)
	}
	cenv := &Env{vc: vc, p: p, pkg: pkg, vars: map[string]Bound{}, state: env.state, old: env.state}
	if len(call.Args) != len(fn.Params) {
		return fmt.Errorf("%s takes %d arguments", key, len(fn.Params))
	}
	for j, a := range call.Args {
		b, err := env.eval(a)
		if err != nil {
			return err
		}
		cenv.vars[fn.Params[j].Name()] = Bound{V: b.V, T: fn.Params[j].Type()}
	}
	sig := fn.Signature
	if len(rnames) != sig.Results().Len() {
		return fmt.Errorf("%s has %d results", key, sig.Results().Len())
	}
	for j, rn := range rnames {
		rt := sig.Results().At(j).Type()
		s := vc.sortOf(rt)
		n := "lr_" + rn
		vc.declare(n, s)
		vc.assume(vc.rangeFact(rt, n))
		b := Bound{V: Val{n, s}, T: rt}
		env.vars[rn] = b
		cenv.results = append(cenv.results, b)
	}
	for _, r := range ct.Requires {
		t, err := cenv.evalBool(r.Expr)
		if err != nil {
			return err
		}
		vc.assume(t) // the lemma speaks about calls that satisfy the precondition
	}
	for _, en := range ct.Ensures {
		t, err := cenv.evalBool(en.Expr)
		if err != nil {
			return err
		}
		vc.assume(t)
	}
	return nil
}
