package main

import (
	"fmt"
	"strings"
)

// lemmaObligations: lemmas over contracts (spec functions shared with the contracts tie them to the code).
func (p *Program) lemmaObligations(id string) ([]OblResult, []string, error) {
	var out []OblResult
	var assumptions []string
	for pkg, cf := range p.contracts {
		for _, lm := range cf.Lemmas {
			if !hasTag(lm.Tags, id) {
				continue
			}
			vc := newVC(p, "lemma#"+lm.Name)
			vc.comps = map[string]compInfo{}
			env := &Env{vc: vc, p: p, pkg: pkg, vars: map[string]Bound{}, state: newState(), old: newState()}
			for _, v := range lm.Vars {
				s, t, err := env.sortOfTypeName(v.Type)
				if err != nil {
					return nil, nil, fmt.Errorf("lemma %s: %v", lm.Name, err)
				}
				n := "lv_" + v.Name
				vc.declare(n, s)
				env.vars[v.Name] = Bound{V: Val{n, s}, T: t}
				if t != nil {
					vc.assume(vc.rangeFact(t, n))
				}
			}
			if lm.Raw != "" {
				vc.decls = append(vc.decls, lm.Raw)
			}
			for _, h := range lm.Hyps {
				t, err := env.evalBool(h.Expr)
				if err != nil {
					return nil, nil, fmt.Errorf("lemma %s hyp %s: %v", lm.Name, h.Label, err)
				}
				vc.assume(t)
			}
			vc.addObl(&Obligation{Name: "lemma#" + lm.Name + ":hyps-satisfiable", Kind: "cover", Tags: lm.Tags, Guard: "true", Cond: "false", Cover: true})
			for i, s := range lm.Show {
				t, err := env.evalBool(s.Expr)
				if err != nil {
					return nil, nil, fmt.Errorf("lemma %s show %s: %v", lm.Name, s.Label, err)
				}
				lbl := s.Label
				if lbl == "" {
					lbl = fmt.Sprintf("S%d", i+1)
				}
				vc.addObl(&Obligation{Name: "lemma#" + lm.Name + ":" + lbl, Kind: "lemma", Tags: lm.Tags, Guard: "true", Cond: t})
			}
			for _, o := range vc.obls {
				out = append(out, OblResult{Obl: o, VC: vc})
			}
			for _, tr := range lm.Trust {
				assumptions = append(assumptions, "lemma "+lm.Name+": "+strings.TrimSpace(tr))
			}
			for a := range vc.assumptions {
				assumptions = append(assumptions, a)
			}
		}
	}
	return out, assumptions, nil
}
