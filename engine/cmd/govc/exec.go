package main

// Symbolic execution of go/ssa function bodies into a passive VC.

import (
	"fmt"
	"go/ast"
	"go/constant"
	"go/token"
	"go/types"
	"os"
	"sort"
	"strings"

	"golang.org/x/tools/go/ssa"
)

type Bound struct {
	V     Val
	T     types.Type
	Tuple []Bound
}

type retPoint struct {
	guard   string
	state   *State
	results []Val
}

type deferSite struct {
	instr *ssa.Defer
	flag  string // component name of the "was deferred" flag
}

type loopInfo struct {
	frameComps []string // heap components covered by the automatic frame invariant

	header  *ssa.BasicBlock
	blocks  map[int]bool
	latches []*ssa.BasicBlock
	spec    *LoopSpec
	key     string
	ordinal int
	phis    []*ssa.Phi
	iter    *ssa.Range // map range iterator driving this loop (if any)
	entryVals map[*ssa.Phi]Val
	havocked  map[*ssa.Phi]Val
	entryState *State
	lockComps  []string
}

type Frame struct {
	blockChans []string // channels of the blocking operation whose "site block" conditions are being evaluated
	atExit     bool     // postconditions are being evaluated over the merged returns
	sendNonBlocking bool // the send being executed is a case of a select with a default branch
	siteCallee string    // full name of the callee at the call site whose conditions are being evaluated
	owned      []ownedObj // maps / slices the contract declares to belong to this call alone

	vc       *VC
	p        *Program
	fn       *ssa.Function
	key      string
	contract *FuncContract
	safety   bool
	tags     []string
	vals     map[ssa.Value]Val
	tuples   map[ssa.Value][]Val
	entry    *State
	cur      *State
	guard    string
	endState map[int]*State
	endGuard map[int]string
	edge     map[[2]int]string
	loops    map[int]*loopInfo // by header index
	loopOf   map[int][]*loopInfo
	defers   []*deferSite
	rets     []retPoint
	labelCnt map[string]int
	parent   *Frame
	depth    int
	params   map[string]Bound
	iters    map[ssa.Value]*iterInfo
	freeVars map[*ssa.FreeVar]Val
	top      bool
	curBlock *ssa.BasicBlock
	heldStatic map[string]bool
	closures map[ssa.Value]*ssa.MakeClosure
	acqState map[string]*State
	lastAcq  *State
	priv     []privCell
	frozen   []privCell // cells of captured variables nobody writes while this closure runs
}

type iterInfo struct {
	rng     *ssa.Range
	mapT    *types.Map
	mapV    Val
	visited string // component name
}

func newFrame(vc *VC, p *Program, fn *ssa.Function, parent *Frame) *Frame {
	f := &Frame{vc: vc, p: p, fn: fn, key: p.fullKey(fn), vals: map[ssa.Value]Val{}, tuples: map[ssa.Value][]Val{},
		endState: map[int]*State{}, endGuard: map[int]string{}, edge: map[[2]int]string{}, loops: map[int]*loopInfo{},
		loopOf: map[int][]*loopInfo{}, labelCnt: map[string]int{}, parent: parent, params: map[string]Bound{},
		iters: map[ssa.Value]*iterInfo{}, freeVars: map[*ssa.FreeVar]Val{}, closures: map[ssa.Value]*ssa.MakeClosure{}}
	if parent != nil {
		f.depth = parent.depth + 1
		f.safety = parent.safety
		f.tags = parent.tags
		f.labelCnt = parent.labelCnt
	}
	f.contract = p.contractFor(fn)
	return f
}

// ---- CFG analysis

func (f *Frame) analyzeLoops() {
	fn := f.fn
	for _, b := range fn.Blocks {
		for _, s := range b.Succs {
			if s.Dominates(b) { // back edge b -> s
				li := f.loops[s.Index]
				if li == nil {
					li = &loopInfo{header: s, blocks: map[int]bool{s.Index: true}}
					f.loops[s.Index] = li
				}
				li.latches = append(li.latches, b)
				// natural loop: blocks that reach b without passing s
				stack := []*ssa.BasicBlock{b}
				for len(stack) > 0 {
					x := stack[len(stack)-1]
					stack = stack[:len(stack)-1]
					if li.blocks[x.Index] {
						continue
					}
					li.blocks[x.Index] = true
					for _, pr := range x.Preds {
						stack = append(stack, pr)
					}
				}
			}
		}
	}
	// loop keys and specs, in source order of headers
	var headers []int
	for h := range f.loops {
		headers = append(headers, h)
	}
	srcPos := map[int]token.Pos{}
	for _, h := range headers {
		srcPos[h] = f.loopStmtPos(f.loops[h])
	}
	sort.Slice(headers, func(i, j int) bool {
		// source order of the loop statements; loops whose statement cannot be found come last, by block index
		si, sj := srcPos[headers[i]], srcPos[headers[j]]
		if si != sj {
			if !si.IsValid() {
				return false
			}
			if !sj.IsValid() {
				return true
			}
			return si < sj
		}
		return headers[i] < headers[j]
	})
	for ord, h := range headers {
		li := f.loops[h]
		li.ordinal = ord + 1
		for _, in := range li.header.Instrs {
			if ph, ok := in.(*ssa.Phi); ok {
				li.phis = append(li.phis, ph)
			}
			if nx, ok := in.(*ssa.Next); ok {
				if r, ok := nx.Iter.(*ssa.Range); ok {
					li.iter = r
				}
			}
		}
		li.key = f.loopKey(li)
		for bi := range li.blocks {
			f.loopOf[bi] = append(f.loopOf[bi], li)
		}
	}
	if f.contract != nil {
		var notFound []string
		for _, ls := range f.contract.Loops {
			matched := false
			for _, h := range headers {
				li := f.loops[h]
				prefix := strings.HasSuffix(ls.Key, "...") && strings.HasPrefix(li.key, strings.TrimSuffix(ls.Key, "..."))
				if li.spec == nil && (li.key == ls.Key || prefix || ls.Key == fmt.Sprintf("#%d", li.ordinal)) {
					li.spec = ls
					if prefix {
						li.key = ls.Key
					}
					matched = true
					break
				}
			}
			if !matched {
				var have []string
				for _, h := range headers {
					have = append(have, fmt.Sprintf("#%d=%q", f.loops[h].ordinal, f.loops[h].key))
				}
				notFound = append(notFound, fmt.Sprintf("%s: loop %q not found (have %s)", f.key, ls.Key, strings.Join(have, ", ")))
			}
		}
		// A loop clause whose loop is gone only matters when some loop of the function is left without invariants:
		// if every remaining loop is annotated (or there is none) nothing the proofs need is missing.
		unannotated := false
		for _, h := range headers {
			if f.loops[h].spec == nil {
				unannotated = true
			}
		}
		for _, m := range notFound {
			if !unannotated {
				m += " [every remaining loop is annotated]"
			}
			f.vc.unbound = append(f.vc.unbound, m)
		}
	}
}

func (f *Frame) blockPos(b *ssa.BasicBlock) token.Pos {
	for _, in := range b.Instrs {
		if in.Pos().IsValid() {
			return in.Pos()
		}
	}
	return token.NoPos
}

// loopKey: "range <expr>" or "for <cond>" from the source.
func (f *Frame) loopKey(li *loopInfo) string {
	// the loop statement is the innermost for/range statement that contains every positioned instruction of the loop
	var lo, hi token.Pos
	for bi := range li.blocks {
		for _, in := range f.fn.Blocks[bi].Instrs {
			switch in.(type) {
			case *ssa.Phi, *ssa.DebugRef:
				continue
			}
			p := in.Pos()
			if !p.IsValid() {
				continue
			}
			if !lo.IsValid() || p < lo {
				lo = p
			}
			if p > hi {
				hi = p
			}
		}
	}
	if !lo.IsValid() {
		return fmt.Sprintf("#%d", li.ordinal)
	}
	file := f.p.files[f.p.fset.Position(lo).Filename]
	if file == nil {
		return fmt.Sprintf("#%d", li.ordinal)
	}
	var best ast.Node
	ast.Inspect(file, func(n ast.Node) bool {
		if n == nil {
			return false
		}
		if n.Pos() > lo || n.End() < hi {
			return false
		}
		switch n.(type) {
		case *ast.ForStmt, *ast.RangeStmt:
			best = n
		}
		return true
	})
	switch s := best.(type) {
	case *ast.RangeStmt:
		return "range " + nodeText(f.p.fset, s.X)
	case *ast.ForStmt:
		if s.Cond != nil {
			return "for " + nodeText(f.p.fset, s.Cond)
		}
		return "for"
	}
	return fmt.Sprintf("#%d", li.ordinal)
}

func (f *Frame) rpo() []*ssa.BasicBlock {
	seen := map[int]bool{}
	var order []*ssa.BasicBlock
	var dfs func(b *ssa.BasicBlock)
	dfs = func(b *ssa.BasicBlock) {
		seen[b.Index] = true
		for i := len(b.Succs) - 1; i >= 0; i-- {
			s := b.Succs[i]
			if s.Dominates(b) { // back edge
				continue
			}
			if !seen[s.Index] {
				dfs(s)
			}
		}
		order = append(order, b)
	}
	dfs(f.fn.Blocks[0])
	for i, j := 0, len(order)-1; i < j; i, j = i+1, j-1 {
		order[i], order[j] = order[j], order[i]
	}
	return order
}

// ---- value access

func (f *Frame) val(v ssa.Value) Val {
	if x, ok := f.vals[v]; ok {
		return x
	}
	switch c := v.(type) {
	case *ssa.Const:
		return f.constVal(c)
	case *ssa.Global:
		// address of a global: opaque id
		n := "gaddr_" + sanitize(c.Pkg.Pkg.Name()+"_"+c.Name())
		f.vc.declare(n, "Int")
		return Val{n, "Int"}
	case *ssa.Function:
		n := "fn_" + sanitize(c.String())
		f.vc.declare(n, "Int")
		f.vc.axiomOnce("fnpos_"+n, fmt.Sprintf("(> %s 0)", n))
		return Val{n, "Int"}
	case *ssa.FreeVar:
		if x, ok := f.freeVars[c]; ok {
			return x
		}
		x := Val{f.vc.fresh("fv_"+c.Name(), "Int"), "Int"}
		f.vc.assume(fmt.Sprintf("(> %s 0)", x.T))
		f.freeVars[c] = x
		return x
	case *ssa.Builtin:
		return Val{"0", "Int"}
	}
	switch a := v.(type) {
	case *ssa.FieldAddr, *ssa.IndexAddr:
		// the address of a field / element used as a value (passed to a call, compared): an opaque non-nil reference
		_ = a
		x := Val{f.vc.fresh("addr_"+v.Name(), "Int"), "Int"}
		f.vc.assume(fmt.Sprintf("(> %s 0)", x.T))
		f.vals[v] = x
		return x
	}
	// value not computed (unsupported producer): unconstrained
	f.vc.abstract(fmt.Sprintf("%s: value %s (%T) used before definition", f.key, v.Name(), v))
	x := Val{f.vc.fresh("undef_"+v.Name(), f.vc.sortOf(v.Type())), f.vc.sortOf(v.Type())}
	f.vals[v] = x
	return x
}

func (f *Frame) constVal(c *ssa.Const) Val {
	t := c.Type()
	s := f.vc.sortOf(t)
	if c.Value == nil {
		return f.vc.zero(t)
	}
	switch c.Value.Kind() {
	case constant.Bool:
		if constant.BoolVal(c.Value) {
			return Val{"true", "Bool"}
		}
		return Val{"false", "Bool"}
	case constant.String:
		return Val{f.vc.strLit(constant.StringVal(c.Value)), "Str"}
	case constant.Int:
		if s == "Real" {
			return Val{smtReal(c.Value), "Real"}
		}
		return Val{smtInt(c.Value), "Int"}
	case constant.Float:
		if s == "Int" {
			if i, ok := constant.Int64Val(constant.ToInt(c.Value)); ok {
				return Val{itoa(i), "Int"}
			}
		}
		return Val{smtReal(c.Value), "Real"}
	}
	return f.vc.zero(t)
}

func smtInt(v constant.Value) string {
	s := v.ExactString()
	if strings.HasPrefix(s, "-") {
		return "(- " + s[1:] + ")"
	}
	return s
}

func smtReal(v constant.Value) string {
	if v.Kind() == constant.Int {
		s := v.ExactString()
		if strings.HasPrefix(s, "-") {
			return "(- " + s[1:] + ".0)"
		}
		return s + ".0"
	}
	num, den := constant.Num(v), constant.Denom(v)
	ns, ds := num.ExactString(), den.ExactString()
	neg := strings.HasPrefix(ns, "-")
	if neg {
		ns = ns[1:]
	}
	r := "(/ " + ns + ".0 " + ds + ".0)"
	if neg {
		r = "(- " + r + ")"
	}
	return r
}

func (f *Frame) setVal(v ssa.Value, x Val) {
	if !isAtom(x.T) {
		x = f.vc.define(v.Name(), x)
	}
	f.vals[v] = x
}

func (f *Frame) freshVal(name string, t types.Type) Val {
	s := f.vc.sortOf(t)
	x := Val{f.vc.fresh(name, s), s}
	f.vc.assume(f.vc.rangeFact(t, x.T))
	f.vc.assume(f.vc.allocatedFact(f.cur, t, x.T))
	return x
}

// ---- locations

func (f *Frame) locOf(v ssa.Value) (Loc, bool) {
	switch a := v.(type) {
	case *ssa.FieldAddr:
		pt := a.X.Type().Underlying().(*types.Pointer)
		st := pt.Elem()
		if l, ok := f.elemFieldLoc(a); ok {
			return l, true
		}
		if inner, ok := a.X.(*ssa.FieldAddr); ok {
			if bl, ok := f.locOf(inner); ok && bl.kind == "field" {
				_, ft := fieldComp(bl.structT, append(append([]int{}, bl.path...), a.Field))
				return Loc{kind: "field", base: bl.base, structT: bl.structT, path: append(append([]int{}, bl.path...), a.Field), typ: ft}, true
			}
		}
		if !isStruct(st) {
			return Loc{}, false
		}
		_, ft := fieldComp(st, []int{a.Field})
		return Loc{kind: "field", base: f.val(a.X).T, structT: st, path: []int{a.Field}, typ: ft}, true
	case *ssa.IndexAddr:
		switch xt := a.X.Type().Underlying().(type) {
		case *types.Slice:
			x := f.val(a.X)
			comp := f.vc.regMem(xt.Elem())
			return Loc{kind: "elem", comp: comp, base: "(s-ref " + x.T + ")", idx: "(sidx (s-off " + x.T + ") " + f.val(a.Index).T + ")", typ: xt.Elem()}, true
		case *types.Pointer:
			arr, ok := xt.Elem().Underlying().(*types.Array)
			if !ok {
				return Loc{}, false
			}
			if _, isFA := a.X.(*ssa.FieldAddr); isFA {
				return Loc{}, false
			}
			comp := f.vc.regMem(arr.Elem())
			return Loc{kind: "elem", comp: comp, base: f.val(a.X).T, idx: f.val(a.Index).T, typ: arr.Elem()}, true
		}
		return Loc{}, false
	case *ssa.Global:
		pt := a.Type().Underlying().(*types.Pointer)
		comp := globalComp(a.Pkg.Pkg.Name(), a.Name())
		f.vc.regComp(comp, f.vc.sortOf(pt.Elem()))
		return Loc{kind: "global", comp: comp, typ: pt.Elem()}, true
	}
	pt, ok := v.Type().Underlying().(*types.Pointer)
	if !ok {
		return Loc{}, false
	}
	el := pt.Elem()
	switch {
	case isStruct(el):
		return Loc{kind: "struct", base: f.val(v).T, structT: el, typ: el}, true
	default:
		if arr, ok := el.Underlying().(*types.Array); ok {
			comp := f.vc.regMem(arr.Elem())
			return Loc{kind: "array", comp: comp, base: f.val(v).T, typ: el}, true
		}
		comp := f.vc.regCell(el)
		return Loc{kind: "cell", comp: comp, base: f.val(v).T, typ: el}, true
	}
}

// ---- obligations

func (f *Frame) label(kind, text string) string {
	base := kind + ":" + text
	f.labelCnt[base]++
	if n := f.labelCnt[base]; n > 1 {
		return fmt.Sprintf("%s#%d", base, n)
	}
	return base
}

func (f *Frame) oblName(kind, label string) string {
	return f.rootKey() + "#" + kind + ":" + label
}

func (f *Frame) rootKey() string {
	r := f
	for r.parent != nil {
		r = r.parent
	}
	return r.key
}

func (f *Frame) safe(kind string, pos token.Pos, text string, cond string) {
	if cond == "true" {
		return
	}
	if f.safety && f.safetyKindWanted(kind) {
		lbl := f.label(kind, text)
		o := &Obligation{Name: f.rootKey() + "#safe:" + lbl, Kind: "safe", Tags: f.safeTags(), Guard: f.guard, Cond: cond, Pos: f.p.posString(pos)}
		f.vc.addObl(o)
		f.classHook(o)
	}
	// after the check the condition holds on this path (otherwise the program panicked)
	f.vc.assumeG(f.guard, cond)
}

func (f *Frame) assertObl(kind, label string, tags []string, guard, cond string, pos string) {
	if len(tags) == 0 {
		tags = f.tags
		if kind == "lock" || kind == "lockset" {
			tags = f.safeTags()
		}
	}
	o := &Obligation{Name: f.oblName(kind, label), Kind: kind, Tags: tags, Guard: guard, Cond: cond, Pos: pos}
	f.vc.addObl(o)
	f.classHook(o)
}

// classHook evaluates the class predicate of a known finding at the obligation's program point.
func (f *Frame) classHook(o *Obligation) {
	kf, ok := f.vc.wantClass[o.Name]
	if !ok || f.cur == nil {
		return
	}
	ex, err := parseExpr(kf.Class)
	if err != nil {
		f.vc.unbound = append(f.vc.unbound, fmt.Sprintf("known finding %s: class: %v", kf.ID, err))
		return
	}
	var li *loopInfo
	if f.curBlock != nil {
		if ls := f.loopOf[f.curBlock.Index]; len(ls) > 0 {
			li = ls[len(ls)-1]
		}
	}
	env := f.envAt(f.cur, li)
	env.acq = f.lastAcq
	t, err := env.evalBool(ex)
	if err != nil {
		f.vc.unbound = append(f.vc.unbound, fmt.Sprintf("known finding %s: class: %v", kf.ID, err))
		return
	}
	o.ClassTerm = f.vc.define("kfclass", Val{t, "Bool"}).T
	o.FactIdx = len(f.vc.facts)
}

func nodeText(fset *token.FileSet, n ast.Node) string {
	var b strings.Builder
	writeNode(&b, fset, n)
	return strings.Join(strings.Fields(b.String()), " ")
}

// ---- running

// run executes the body with the given argument values; returns merged results and exit guard.
func (f *Frame) run(args []Val, state *State, guard string) ([]Val, *State, string) {
	fn := f.fn
	if fn.Blocks == nil {
		panic("no body: " + f.key)
	}
	f.cur = state
	for i, p := range fn.Params {
		f.vals[p] = args[i]
		f.params[p.Name()] = Bound{V: args[i], T: p.Type()}
	}
	if f.entry == nil {
		f.entry = state.clone()
	}
	f.analyzeLoops()
	f.prescan()
	f.initDeferFlags()
	f.initLastCalls()
	order := f.rpo()
	for _, b := range order {
		if b == fn.Recover {
			continue
		}
		prevBlock := f.curBlock
		f.curBlock = b
		if !f.enterBlock(b, guard) {
			f.curBlock = prevBlock
			continue
		}
		for _, in := range b.Instrs {
			f.exec(in)
		}
		f.endState[b.Index] = f.cur
		f.endGuard[b.Index] = f.guard
		// back edges: invariant preservation
		for si, s := range b.Succs {
			if s.Dominates(b) {
				if li := f.loops[s.Index]; li != nil {
					f.checkLoopInv(li, b, si, false)
				}
			}
			f.siteExit(b, si, s)
		}
	}
	return f.mergeReturns()
}

func (f *Frame) mergeReturns() ([]Val, *State, string) {
	if len(f.rets) == 0 {
		return nil, f.cur, "false"
	}
	var states []*State
	var conds []string
	for _, r := range f.rets {
		states = append(states, r.state)
		conds = append(conds, r.guard)
	}
	st := f.vc.mergeStates(states, conds)
	n := len(f.rets[0].results)
	res := make([]Val, n)
	for i := 0; i < n; i++ {
		t := f.rets[len(f.rets)-1].results[i].T
		for j := len(f.rets) - 2; j >= 0; j-- {
			t = ite(f.rets[j].guard, f.rets[j].results[i].T, t)
		}
		res[i] = f.vc.define("ret", Val{t, f.rets[0].results[i].S})
	}
	g := f.vc.define("g_exit", Val{or(conds...), "Bool"}).T
	return res, st, g
}

// enterBlock computes the guard, state and phi values at block entry. Returns false if unreachable.
func (f *Frame) enterBlock(b *ssa.BasicBlock, entryGuard string) bool {
	if b.Index == 0 {
		f.guard = entryGuard
		return true
	}
	var states []*State
	var conds []string
	var preds []*ssa.BasicBlock
	for _, p := range b.Preds {
		if b.Dominates(p) { // back edge into b
			continue
		}
		st, ok := f.endState[p.Index]
		if !ok {
			continue
		}
		// which successor index
		c := "true"
		for si, s := range p.Succs {
			if s == b {
				c = f.edgeCondOf(p, si)
				break
			}
		}
		if len(p.Succs) == 2 && p.Succs[0] == b && p.Succs[1] == b {
			c = "true"
		}
		states = append(states, st)
		conds = append(conds, and(f.endGuard[p.Index], c))
		preds = append(preds, p)
	}
	if len(states) == 0 {
		return false
	}
	f.guard = f.vc.define(fmt.Sprintf("g_b%d", b.Index), Val{or(conds...), "Bool"}).T
	f.cur = f.vc.mergeStates(states, conds)
	li := f.loops[b.Index]
	// phis
	for _, in := range b.Instrs {
		ph, ok := in.(*ssa.Phi)
		if !ok {
			break
		}
		var vals []Val
		for _, p := range preds {
			for ei, pp := range b.Preds {
				if pp == p {
					vals = append(vals, f.val(ph.Edges[ei]))
					break
				}
			}
		}
		t := vals[len(vals)-1].T
		for j := len(vals) - 2; j >= 0; j-- {
			t = ite(conds[j], vals[j].T, t)
		}
		v := Val{t, f.vc.sortOf(ph.Type())}
		if li != nil {
			if li.entryVals == nil {
				li.entryVals = map[*ssa.Phi]Val{}
			}
			li.entryVals[ph] = f.vc.define(ph.Name()+"_in", v)
		} else {
			f.setVal(ph, v)
		}
	}
	if li != nil {
		f.enterLoop(li)
	}
	return true
}

func (f *Frame) edgeCondOf(p *ssa.BasicBlock, si int) string {
	if c, ok := f.edge[[2]int{p.Index, si}]; ok {
		return c
	}
	return "true"
}

// ---- loops

func (f *Frame) enterLoop(li *loopInfo) {
	li.entryState = f.cur.clone()
	// 1. invariants hold on entry
	f.checkLoopInv(li, nil, 0, true)
	// 2. havoc loop targets
	li.havocked = map[*ssa.Phi]Val{}
	for _, ph := range li.phis {
		v := f.freshVal(phiName(ph), ph.Type())
		li.havocked[ph] = v
		f.vals[ph] = v
	}
	comps, all := f.loopWrites(li)
	if all {
		// everything the callees may touch is unknown; activation-local ghosts change only through this
		// function's own instructions, so those not written in the loop keep their values
		written := map[string]bool{}
		for _, c := range comps {
			written[c] = true
		}
		keep := map[string]string{}
		for k := range f.vc.comps {
			if isActivationLocal(k) && !written[k] {
				keep[k] = f.vc.get(f.cur, k)
			}
		}
		oldNext := f.vc.get(f.cur, "next")
		immOld := map[string]string{}
		for k := range f.vc.comps {
			if immutableComps[k] {
				immOld[k] = f.vc.get(f.cur, k)
			}
		}
		f.vc.havocAll(f.cur)
		for k, v := range keep {
			f.cur.comp[k] = v
		}
		for _, c := range comps {
			if isActivationLocal(c) {
				f.vc.havocComp(f.cur, c)
			}
		}
		for k, old := range immOld {
			f.havocKeepOld(k, old, oldNext)
		}
		// private cells not assigned inside the loop keep their contents
		f.restorePrivateUnwritten(li)
		f.vc.assume(fmt.Sprintf("(>= %s %s)", f.vc.get(f.cur, "next"), oldNext))
	} else {
		oldNext := f.vc.get(f.cur, "next")
		for _, c := range comps {
			if immutableComps[c] {
				f.havocKeepOld(c, f.vc.get(f.cur, c), oldNext)
				continue
			}
			if c == "next" {
				old := f.vc.get(f.cur, "next")
				f.vc.havocComp(f.cur, "next")
				f.vc.assume(fmt.Sprintf("(>= %s %s)", f.vc.get(f.cur, "next"), old))
				continue
			}
			if bases := f.loopStoreBases(li, c); len(bases) > 0 {
				// the loop writes this field only through stores at loop-invariant objects: only those cells change
				cur := f.vc.get(f.cur, c)
				for _, b := range bases {
					cur = store(cur, b, f.vc.fresh(c+"_lv", elemSortOf(f.vc.comps[c].sort)))
				}
				f.vc.set(f.cur, c, cur)
				continue
			}
			f.vc.havocComp(f.cur, c)
		}
	}
	if !all {
		f.autoFrameAssume(li, comps)
	}
	// automatic candidate invariant (checked on every back edge): locks are balanced per iteration
	li.lockComps = nil
	for _, c := range comps {
		if strings.HasPrefix(c, "Held_") {
			li.lockComps = append(li.lockComps, c)
			f.vc.assumeG(f.guard, eq(f.vc.get(f.cur, c), f.vc.get(li.entryState, c)))
		}
	}
	// 3. assume invariants
	for _, c := range f.loopInvariants(li) {
		env := f.envAt(f.cur, li)
		t, err := env.evalBool(c.Expr)
		if err != nil {
			f.vc.unbound = append(f.vc.unbound, fmt.Sprintf("%s: loop %q invariant %s: %v", f.key, li.key, c.Label, err))
			continue
		}
		f.vc.assumeG(f.guard, t)
	}
	// automatic range-index invariant 0 <= i <= len for rangeindex loops
	f.autoInvariant(li, nil, true)
	// per-iteration ghost flags start every iteration cleared
	f.resetIterFlags(li)
}

func phiName(ph *ssa.Phi) string {
	if ph.Comment != "" {
		return ph.Comment
	}
	return ph.Name()
}

func (f *Frame) loopInvariants(li *loopInfo) []*Clause {
	if li.spec == nil {
		return nil
	}
	return li.spec.Invariants
}

// autoInvariant: for a rangeindex loop `i = phi [-1, i+1]; i+1 < len` assume/assert -1 <= i < len
func (f *Frame) autoInvariant(li *loopInfo, edgeVals map[*ssa.Phi]Val, assume bool) {
	if !strings.HasPrefix(li.header.Comment, "rangeindex.loop") {
		return
	}
	// find phi with comment "rangeindex" and the len value used in the comparison
	for _, ph := range li.phis {
		if ph.Comment != "rangeindex" {
			continue
		}
		var lenV ssa.Value
		for _, in := range li.header.Instrs {
			if bo, ok := in.(*ssa.BinOp); ok && bo.Op == token.LSS {
				lenV = bo.Y
			}
		}
		if lenV == nil {
			return
		}
		if _, ok := f.vals[lenV]; !ok {
			if _, isConst := lenV.(*ssa.Const); !isConst {
				return
			}
		}
		l := f.val(lenV).T
		if assume {
			i := f.vals[ph].T
			f.vc.assumeG(f.guard, fmt.Sprintf("(and (<= (- 1) %s) (< %s %s))", i, i, l))
		}
	}
}

// checkLoopInv asserts the invariants at loop entry (entry=true) or on the back edge from latch (successor si).
func (f *Frame) checkLoopInv(li *loopInfo, latch *ssa.BasicBlock, si int, entry bool) {
	invs := f.loopInvariants(li)
	// bind phi values for this edge
	saved := map[*ssa.Phi]Val{}
	for _, ph := range li.phis {
		saved[ph] = f.vals[ph]
	}
	var guard string
	var st *State
	if entry {
		for _, ph := range li.phis {
			f.vals[ph] = li.entryVals[ph]
		}
		guard, st = f.guard, f.cur
	} else {
		for _, ph := range li.phis {
			for ei, pp := range li.header.Preds {
				if pp == latch {
					f.vals[ph] = f.val(ph.Edges[ei])
				}
			}
		}
		guard, st = and(f.endGuard[latch.Index], f.edgeCondOf(latch, si)), f.endState[latch.Index]
	}
	// the automatic range-index bound holds on every edge into the header
	if strings.HasPrefix(li.header.Comment, "rangeindex.loop") {
		for _, ph := range li.phis {
			if ph.Comment == "rangeindex" {
				// -1 on entry; i+1 where i+1 < len on back edge: always holds by construction of the lowering
				_ = ph
			}
		}
	}
	if !entry && (f.safety || f.contract != nil) {
		var conj []string
		for _, c := range li.lockComps {
			conj = append(conj, eq(f.vc.get(st, c), f.vc.get(li.entryState, c)))
		}
		if len(conj) > 0 {
			lbl := f.label("lock", "balanced-in-loop:"+li.key)
			f.assertObl("lock", lbl, nil, guard, and(conj...), "")
		}
	}
	if !entry {
		f.siteContinue(li, latch, guard, st)
		f.autoFrameCheck(li, guard, st, "")
	}
	for _, c := range invs {
		env := f.envAt(st, li)
		t, err := env.evalBool(c.Expr)
		if err != nil {
			f.vc.unbound = append(f.vc.unbound, fmt.Sprintf("%s: loop %q invariant %s: %v", f.key, li.key, c.Label, err))
			continue
		}
		kind := "inv-preserve"
		if entry {
			kind = "inv-entry"
		}
		lbl := c.Label
		if lbl == "" {
			lbl = fmt.Sprintf("L%d", c.Line)
		}
		name := fmt.Sprintf("%s:%s", li.key, lbl)
		if !entry && len(li.latches) > 1 {
			name += fmt.Sprintf("@latch%d", indexOfBlock(li.latches, latch)+1)
		}
		tags := c.Tags
		f.assertObl(kind, name, tags, guard, t, fmt.Sprintf("%s:%d", c.File, c.Line))
	}
	for _, ph := range li.phis {
		if v, ok := saved[ph]; ok && v.T != "" {
			f.vals[ph] = v
		} else {
			delete(f.vals, ph)
		}
	}
}

func indexOfBlock(bs []*ssa.BasicBlock, b *ssa.BasicBlock) int {
	for i, x := range bs {
		if x == b {
			return i
		}
	}
	return -1
}

// loopWrites: components possibly written inside the loop (syntactic over-approximation)
func (f *Frame) loopWrites(li *loopInfo) ([]string, bool) {
	set := map[string]bool{}
	all := false
	for bi := range li.blocks {
		for _, in := range f.fn.Blocks[bi].Instrs {
			cs, a := f.instrWrites(in)
			if a {
				all = true
				if os.Getenv("GOVC_DEBUG") != "" {
					fmt.Fprintf(os.Stderr, "loop %s in %s: havoc-all because of %s\n", li.key, f.key, in)
				}
			}
			for _, c := range cs {
				set[c] = true
			}
		}
	}
	for _, fl := range f.rootContract().Flags {
		if len(fl) > 0 {
			f.vc.regComp(flagComp(fl[0]), "Bool")
			set[flagComp(fl[0])] = true // ghost flags may be set or cleared by events inside the loop
		}
	}
	if li.spec != nil && len(li.spec.Modifies) > 0 {
		// explicit loop frame overrides the syntactic scan
		set = map[string]bool{}
		all = false
		for _, m := range li.spec.Modifies {
			for _, it := range splitTop(m.Text, ',') {
				it = strings.TrimSpace(it)
				if it == "*" {
					all = true
				} else if strings.HasPrefix(it, "comp:") {
					set[strings.TrimPrefix(it, "comp:")] = true
				}
			}
		}
	}
	var out []string
	for c := range set {
		if _, ok := f.vc.comps[c]; ok {
			out = append(out, c)
		}
	}
	sort.Strings(out)
	return out, all
}

// prescan registers components mentioned by the function so that merges and havocs know them.
func (f *Frame) prescan() {
	for _, b := range f.fn.Blocks {
		for _, in := range b.Instrs {
			f.instrWrites(in)
			switch x := in.(type) {
			case *ssa.FieldAddr:
				pt := x.X.Type().Underlying().(*types.Pointer)
				if isStruct(pt.Elem()) {
					if _, nested := x.X.(*ssa.FieldAddr); !nested {
						_, ft := fieldComp(pt.Elem(), []int{x.Field})
						if isStruct(ft) {
							for _, l := range structLeaves(ft, nil) {
								f.vc.regField(pt.Elem(), append([]int{x.Field}, l.path...))
							}
						} else {
							f.vc.regField(pt.Elem(), []int{x.Field})
						}
					}
				}
			case *ssa.Lookup:
				if m, ok := x.X.Type().Underlying().(*types.Map); ok {
					f.vc.regMap(m)
				}
			}
		}
	}
	f.vc.regNext()
	if f.vc.prescanSet == nil {
		f.vc.prescanSet = map[string]bool{}
	}
	for k := range f.vc.comps {
		f.vc.prescanSet[k] = true
	}
}

func splitTop(s string, sep rune) []string {
	var out []string
	d := 0
	last := 0
	for i, c := range s {
		switch c {
		case '(', '[':
			d++
		case ')', ']':
			d--
		default:
			if c == sep && d == 0 {
				out = append(out, s[last:i])
				last = i + 1
			}
		}
	}
	out = append(out, s[last:])
	return out
}
