package main

// Contract expression language: a Go-like expression syntax with
//   ==>  <==>  in  ++  forall/exists x T[, y U] :: e   let x = e in e   old(e)   c ? a : b

import (
	"fmt"
	"strings"
	"unicode"
)

type Expr struct {
	Op   string  // ident int str real call sel index slice unary binary forall exists let cond
	Name string  // ident name, operator, field name, function name
	Args []*Expr
	Vars []Param // quantifier variables
	Pos  int
}

func (e *Expr) String() string {
	switch e.Op {
	case "ident", "int", "real":
		return e.Name
	case "str":
		return fmt.Sprintf("%q", e.Name)
	case "call":
		var as []string
		for _, a := range e.Args {
			as = append(as, a.String())
		}
		return e.Name + "(" + strings.Join(as, ", ") + ")"
	case "sel":
		return e.Args[0].String() + "." + e.Name
	case "index":
		return e.Args[0].String() + "[" + e.Args[1].String() + "]"
	case "slice":
		s := e.Args[0].String() + "["
		if e.Args[1] != nil {
			s += e.Args[1].String()
		}
		s += ":"
		if e.Args[2] != nil {
			s += e.Args[2].String()
		}
		return s + "]"
	case "unary":
		return e.Name + e.Args[0].String()
	case "binary":
		return "(" + e.Args[0].String() + " " + e.Name + " " + e.Args[1].String() + ")"
	case "forall", "exists":
		var vs []string
		for _, v := range e.Vars {
			vs = append(vs, v.Name+" "+v.Type)
		}
		return "(" + e.Op + " " + strings.Join(vs, ", ") + " :: " + e.Args[0].String() + ")"
	case "let":
		return "(let " + e.Name + " = " + e.Args[0].String() + " in " + e.Args[1].String() + ")"
	case "cond":
		return "(" + e.Args[0].String() + " ? " + e.Args[1].String() + " : " + e.Args[2].String() + ")"
	}
	return "?"
}

type tok struct {
	kind string // id int real str op eof
	text string
	pos  int
}

func lex(s string) ([]tok, error) {
	var toks []tok
	i := 0
	for i < len(s) {
		c := s[i]
		switch {
		case c == ' ' || c == '\t' || c == '\n' || c == '\r':
			i++
		case unicode.IsLetter(rune(c)) || c == '_':
			j := i
			for j < len(s) && (unicode.IsLetter(rune(s[j])) || unicode.IsDigit(rune(s[j])) || s[j] == '_' || s[j] == '$') {
				j++
			}
			toks = append(toks, tok{"id", s[i:j], i})
			i = j
		case c >= '0' && c <= '9':
			j := i
			kind := "int"
			if c == '0' && j+1 < len(s) && (s[j+1] == 'x' || s[j+1] == 'X') {
				j += 2
				for j < len(s) && strings.ContainsRune("0123456789abcdefABCDEF", rune(s[j])) {
					j++
				}
			} else {
				for j < len(s) && s[j] >= '0' && s[j] <= '9' {
					j++
				}
				if j+1 < len(s) && s[j] == '.' && s[j+1] >= '0' && s[j+1] <= '9' {
					kind = "real"
					j++
					for j < len(s) && s[j] >= '0' && s[j] <= '9' {
						j++
					}
				}
			}
			toks = append(toks, tok{kind, s[i:j], i})
			i = j
		case c == '"':
			j := i + 1
			var b strings.Builder
			for j < len(s) && s[j] != '"' {
				if s[j] == '\\' && j+1 < len(s) {
					j++
					switch s[j] {
					case 'n':
						b.WriteByte('\n')
					case 't':
						b.WriteByte('\t')
					case 'r':
						b.WriteByte('\r')
					case '0':
						b.WriteByte(0)
					case 'x':
						if j+2 < len(s) {
							var v int
							fmt.Sscanf(s[j+1:j+3], "%02x", &v)
							b.WriteByte(byte(v))
							j += 2
						}
					default:
						b.WriteByte(s[j])
					}
				} else {
					b.WriteByte(s[j])
				}
				j++
			}
			if j >= len(s) {
				return nil, fmt.Errorf("unterminated string")
			}
			toks = append(toks, tok{"str", b.String(), i})
			i = j + 1
		default:
			ops := []string{"<==>", "==>", "::", "&&", "||", "==", "!=", "<=", ">=", "++", ":=", "<<", ">>",
				"+", "-", "*", "/", "%", "<", ">", "!", "(", ")", "[", "]", ",", ".", ":", "?", "=", "&", "|", "{", "}"}
			matched := false
			for _, op := range ops {
				if strings.HasPrefix(s[i:], op) {
					toks = append(toks, tok{"op", op, i})
					i += len(op)
					matched = true
					break
				}
			}
			if !matched {
				return nil, fmt.Errorf("unexpected character %q at %d", c, i)
			}
		}
	}
	toks = append(toks, tok{"eof", "", len(s)})
	return toks, nil
}

type parser struct {
	toks []tok
	p    int
}

func parseExpr(s string) (*Expr, error) {
	toks, err := lex(s)
	if err != nil {
		return nil, err
	}
	ps := &parser{toks: toks}
	e, err := ps.expr(0)
	if err != nil {
		return nil, err
	}
	if ps.peek().kind != "eof" {
		return nil, fmt.Errorf("unexpected %q at %d", ps.peek().text, ps.peek().pos)
	}
	return e, nil
}

func (ps *parser) peek() tok { return ps.toks[ps.p] }
func (ps *parser) next() tok  { t := ps.toks[ps.p]; ps.p++; return t }
func (ps *parser) isOp(s string) bool {
	t := ps.peek()
	return t.kind == "op" && t.text == s
}
func (ps *parser) isId(s string) bool {
	t := ps.peek()
	return t.kind == "id" && t.text == s
}
func (ps *parser) expect(s string) error {
	if !ps.isOp(s) {
		return fmt.Errorf("expected %q, found %q at %d", s, ps.peek().text, ps.peek().pos)
	}
	ps.p++
	return nil
}

// precedence: 1 <==> ; 2 ==> (right) ; 3 ?: ; 4 || ; 5 && ; 6 comparisons, in ; 7 + - ++ | ; 8 * / % & << >>
func binPrec(t tok) int {
	if t.kind == "id" && t.text == "in" {
		return 6
	}
	if t.kind != "op" {
		return 0
	}
	switch t.text {
	case "<==>":
		return 1
	case "==>":
		return 2
	case "||":
		return 4
	case "&&":
		return 5
	case "==", "!=", "<", "<=", ">", ">=":
		return 6
	case "+", "-", "++", "|":
		return 7
	case "*", "/", "%", "&", "<<", ">>":
		return 8
	}
	return 0
}

func (ps *parser) expr(minPrec int) (*Expr, error) {
	lhs, err := ps.unary()
	if err != nil {
		return nil, err
	}
	for {
		t := ps.peek()
		if t.kind == "op" && t.text == "?" && minPrec <= 3 {
			ps.next()
			a, err := ps.expr(4)
			if err != nil {
				return nil, err
			}
			if err := ps.expect(":"); err != nil {
				return nil, err
			}
			b, err := ps.expr(3)
			if err != nil {
				return nil, err
			}
			lhs = &Expr{Op: "cond", Args: []*Expr{lhs, a, b}, Pos: t.pos}
			continue
		}
		prec := binPrec(t)
		if prec == 0 || prec < minPrec {
			return lhs, nil
		}
		ps.next()
		var rhs *Expr
		if t.text == "==>" { // right associative
			rhs, err = ps.expr(prec)
		} else {
			rhs, err = ps.expr(prec + 1)
		}
		if err != nil {
			return nil, err
		}
		lhs = &Expr{Op: "binary", Name: t.text, Args: []*Expr{lhs, rhs}, Pos: t.pos}
	}
}

func (ps *parser) unary() (*Expr, error) {
	t := ps.peek()
	if t.kind == "op" && (t.text == "!" || t.text == "-") {
		ps.next()
		a, err := ps.unary()
		if err != nil {
			return nil, err
		}
		return &Expr{Op: "unary", Name: t.text, Args: []*Expr{a}, Pos: t.pos}, nil
	}
	if t.kind == "id" && (t.text == "forall" || t.text == "exists") {
		ps.next()
		var vars []Param
		for {
			n := ps.next()
			if n.kind != "id" {
				return nil, fmt.Errorf("expected variable name at %d", n.pos)
			}
			ty, err := ps.typeText()
			if err != nil {
				return nil, err
			}
			vars = append(vars, Param{n.text, ty})
			if ps.isOp(",") {
				ps.next()
				continue
			}
			break
		}
		if err := ps.expect("::"); err != nil {
			return nil, err
		}
		body, err := ps.expr(0)
		if err != nil {
			return nil, err
		}
		return &Expr{Op: t.text, Vars: vars, Args: []*Expr{body}, Pos: t.pos}, nil
	}
	if t.kind == "id" && t.text == "let" {
		ps.next()
		n := ps.next()
		if err := ps.expect("="); err != nil {
			return nil, err
		}
		v, err := ps.expr(0)
		if err != nil {
			return nil, err
		}
		if !ps.isId("in") {
			return nil, fmt.Errorf("expected 'in' at %d", ps.peek().pos)
		}
		ps.next()
		body, err := ps.expr(0)
		if err != nil {
			return nil, err
		}
		return &Expr{Op: "let", Name: n.text, Args: []*Expr{v, body}, Pos: t.pos}, nil
	}
	return ps.postfix()
}

// typeText reads a type in a quantifier: ident, *ident, pkg.ident, []byte
func (ps *parser) typeText() (string, error) {
	var b strings.Builder
	for ps.isOp("*") || ps.isOp("[") || ps.isOp("]") {
		b.WriteString(ps.next().text)
	}
	t := ps.next()
	if t.kind != "id" {
		return "", fmt.Errorf("expected type at %d", t.pos)
	}
	b.WriteString(t.text)
	if ps.isOp(".") {
		ps.next()
		t2 := ps.next()
		b.WriteString("." + t2.text)
	}
	return b.String(), nil
}

func (ps *parser) postfix() (*Expr, error) {
	e, err := ps.primary()
	if err != nil {
		return nil, err
	}
	for {
		switch {
		case ps.isOp("."):
			ps.next()
			n := ps.next()
			if n.kind != "id" && n.kind != "int" {
				return nil, fmt.Errorf("expected field name at %d", n.pos)
			}
			// qualified call pkg.Func(...)
			if e.Op == "ident" && ps.isOp("(") && isLower(e.Name) && n.kind == "id" && isUpper(n.text) {
				ps.next()
				args, err := ps.args()
				if err != nil {
					return nil, err
				}
				e = &Expr{Op: "call", Name: e.Name + "." + n.text, Args: args, Pos: n.pos}
				continue
			}
			e = &Expr{Op: "sel", Name: n.text, Args: []*Expr{e}, Pos: n.pos}
		case ps.isOp("["):
			t := ps.next()
			var lo, hi *Expr
			if !ps.isOp(":") {
				lo, err = ps.expr(0)
				if err != nil {
					return nil, err
				}
			}
			if ps.isOp(":") {
				ps.next()
				if !ps.isOp("]") {
					hi, err = ps.expr(0)
					if err != nil {
						return nil, err
					}
				}
				if err := ps.expect("]"); err != nil {
					return nil, err
				}
				e = &Expr{Op: "slice", Args: []*Expr{e, lo, hi}, Pos: t.pos}
			} else {
				if err := ps.expect("]"); err != nil {
					return nil, err
				}
				e = &Expr{Op: "index", Args: []*Expr{e, lo}, Pos: t.pos}
			}
		default:
			return e, nil
		}
	}
}

func isLower(s string) bool { return s != "" && s[0] >= 'a' && s[0] <= 'z' }
func isUpper(s string) bool { return s != "" && s[0] >= 'A' && s[0] <= 'Z' }

func (ps *parser) args() ([]*Expr, error) {
	var args []*Expr
	if ps.isOp(")") {
		ps.next()
		return args, nil
	}
	for {
		a, err := ps.expr(0)
		if err != nil {
			return nil, err
		}
		args = append(args, a)
		if ps.isOp(",") {
			ps.next()
			continue
		}
		if err := ps.expect(")"); err != nil {
			return nil, err
		}
		return args, nil
	}
}

func (ps *parser) primary() (*Expr, error) {
	t := ps.next()
	switch t.kind {
	case "int":
		return &Expr{Op: "int", Name: t.text, Pos: t.pos}, nil
	case "real":
		return &Expr{Op: "real", Name: t.text, Pos: t.pos}, nil
	case "str":
		return &Expr{Op: "str", Name: t.text, Pos: t.pos}, nil
	case "id":
		if ps.isOp("(") {
			ps.next()
			args, err := ps.args()
			if err != nil {
				return nil, err
			}
			return &Expr{Op: "call", Name: t.text, Args: args, Pos: t.pos}, nil
		}
		return &Expr{Op: "ident", Name: t.text, Pos: t.pos}, nil
	case "op":
		if t.text == "(" {
			e, err := ps.expr(0)
			if err != nil {
				return nil, err
			}
			if err := ps.expect(")"); err != nil {
				return nil, err
			}
			return e, nil
		}
	}
	return nil, fmt.Errorf("unexpected %q at %d", t.text, t.pos)
}

func exprMentionsCall(e *Expr, name string) bool {
	if e == nil {
		return false
	}
	if e.Op == "call" && e.Name == name {
		return true
	}
	for _, a := range e.Args {
		if exprMentionsCall(a, name) {
			return true
		}
	}
	return false
}
