package main

import (
	"flag"
	"fmt"
	"os"
	"sort"
	"strconv"
	"strings"
)

func unquote(s string) (string, error) { return strconv.Unquote(s) }

func scratchDir() string {
	base := os.Getenv("TMPDIR")
	if base == "" {
		base = "/dev/shm"
	}
	d := fmt.Sprintf("%s/govc.%d", base, os.Getpid())
	os.MkdirAll(d, 0o755)
	return d
}

func main() {
	if len(os.Args) < 2 {
		fmt.Fprintln(os.Stderr, "usage: govc <vc|check|list|replay> ...")
		os.Exit(2)
	}
	switch os.Args[1] {
	case "vc":
		cmdVC(os.Args[2:])
	case "list":
		cmdList(os.Args[2:])
	case "check":
		os.Exit(cmdCheck(os.Args[2:]))
	case "replay":
		os.Exit(cmdReplay(os.Args[2:]))
	case "selftest":
		os.Exit(cmdSelftest(os.Args[2:]))
	default:
		fmt.Fprintln(os.Stderr, "unknown command", os.Args[1])
		os.Exit(2)
	}
}

func cmdList(args []string) {
	fs := flag.NewFlagSet("list", flag.ExitOnError)
	repo := fs.String("repo", "/repo", "repository")
	fs.Parse(args)
	p, err := loadProgram(*repo, receptorPkgs)
	if err != nil {
		fmt.Fprintln(os.Stderr, err)
		os.Exit(2)
	}
	for _, k := range p.sortedFuncKeys() {
		fmt.Println(k)
	}
}

// vc: verify single functions (debugging aid)
func cmdVC(args []string) {
	fs := flag.NewFlagSet("vc", flag.ExitOnError)
	repo := fs.String("repo", "/repo", "repository")
	safety := fs.Bool("safety", false, "force safety obligations")
	keep := fs.String("keep", "", "keep SMT files in this directory")
	timeout := fs.Int("t", 10, "timeout per obligation (s)")
	verbose := fs.Bool("v", false, "verbose")
	nosolve := fs.Bool("nosolve", false, "only build the VCs")
	fs.Parse(args)
	p, err := loadProgram(*repo, receptorPkgs)
	if err != nil {
		fmt.Fprintln(os.Stderr, err)
		os.Exit(2)
	}
	if err := p.loadLibs(); err != nil {
		fmt.Fprintln(os.Stderr, err)
		os.Exit(2)
	}
	dir := *keep
	if dir == "" {
		dir = scratchDir()
		defer os.RemoveAll(dir)
	}
	for _, key := range fs.Args() {
		r := p.verifyFunc(key, *safety, nil)
		if r.Err != "" {
			fmt.Printf("%s: ERROR %s\n", key, r.Err)
			continue
		}
		var items []OblResult
		for _, o := range r.VC.obls {
			items = append(items, OblResult{Obl: o, VC: r.VC})
		}
		if *nosolve {
			fmt.Printf("%s: %d obligations, %d abstracted, %d unbound\n", key, len(items), len(r.Abstracted), len(r.Unbound))
			for _, a := range r.Abstracted {
				fmt.Println("  abstracted:", a)
			}
			continue
		}
		dischargeAll(items, dir, *timeout, 0, 16)
		sort.SliceStable(items, func(i, j int) bool { return items[i].Obl.Name < items[j].Obl.Name })
		for _, it := range items {
			st := it.Res.Status
			ok := st == "unsat"
			if it.Obl.Cover {
				ok = st == "sat"
			}
			mark := "FAIL"
			if ok {
				mark = "ok  "
			}
			fmt.Printf("%s %-7s %-7s %5dms %7dB %s  [%s]\n", mark, st, it.Res.Solver, it.Res.Ms, it.Res.VCBytes, it.Obl.Name, strings.Join(it.Obl.Tags, ","))
			if *verbose && !ok {
				fmt.Printf("     file: %s\n", it.Res.File)
			}
		}
		for _, a := range r.Abstracted {
			fmt.Println("  abstracted:", a)
		}
		for _, u := range r.Unbound {
			fmt.Println("  UNBOUND:", u)
		}
		var un []string
		for u := range r.VC.uncontracted {
			un = append(un, u)
		}
		sort.Strings(un)
		for _, u := range un {
			fmt.Println("  uncontracted callee:", u)
		}
	}
}
