package main

// Contract files: comment-only Go files (verif_contracts.go, build tag verif) whose
// `//@` lines carry declarations.  Line oriented: a line starting with a keyword
// starts a declaration or a clause; other lines continue the previous one.

import (
	"fmt"
	"os"
	"path/filepath"
	"strings"
)

type Clause struct {
	Kind  string // requires ensures invariant modifies tags ...
	Label string
	Tags  []string // property tags local to the clause ([C02 C10] after label)
	Text  string
	Expr  *Expr
	Line  int
	File  string
}

type LoopSpec struct {
	Key        string // "range <text>" | "for <text>" | "#n"
	Invariants []*Clause
	Modifies   []*Clause
	Line       int
}

type FuncContract struct {
	Key       string // e.g. "(*framer).GetMessage", "firewallRule$2"
	Pkg       string
	Tags      []string
	SafetyTags []string // tags of the implicit safety / lock obligations (default: Tags)
	SafetyKinds []string // "safety slice index ...": only these kinds of implicit obligations are generated (default: all)
	Requires  []*Clause
	Ensures   []*Clause
	AtRelease []*Clause
	Modifies  []*Clause // each Text is a comma separated list of locations
	HasModifies bool
	Loops     []*LoopSpec
	Trusted   bool
	Pure      bool
	Safety    bool // generate implicit safety obligations
	NoSafety  bool
	Inline    bool
	Acquires  []string
	Releases  []string
	Holds     []*Clause // requires held(lock)
	Asserts   []*Clause // site obligations: "site <kind> <pattern> requires <expr>"
	Sites     []*SiteSpec
	Params    []string // optional explicit parameter names (libspec/iface)
	Line      int
	File      string
	Used      bool
	Havoc     []string
	Flags     [][]string // ghost flags: name set k:pat clear k:pat
	DynCalls  []string   // "dyncall <func type> targets A, B": dynamic calls through that type go to one of the targets
	Extra     map[string][]*Clause
}

type SiteSpec struct {
	Kind    string // call, store
	Pattern string // callee name or field
	Label   string
	Tags    []string
	Text    string
	Expr    *Expr
	Line    int
}

type SpecFunc struct {
	Name   string
	Params []Param
	Ret    string
	Body   *Expr
	Text   string
	Rec    bool
	Line   int
}

type Param struct{ Name, Type string }

type Monitor struct {
	RecvName string
	RecvType string   // struct type name
	Lock     string   // field name of the lock
	Protects []string // field names protected
	Invs     []*Clause
	Guars    []*Clause
	Deep     []string
	Line     int
}

type Lemma struct {
	Name  string
	Tags  []string
	Vars  []Param
	Hyps  []*Clause
	Show  []*Clause
	Raw   string // raw SMT (for lemmas written directly in SMT-LIB)
	Line  int
	File  string
	Trust []string
	Uses  []string // "F(a, b) as r": assume the ensures of contract F for arguments a, b and result r
}

type StructInv struct {
	RecvName string
	RecvType string
	Clauses  []*Clause
}

type GlobalDecl struct {
	Name string
	Mode string // under <lock> | immutable | confined <x>
	Line int
}

type ContractFile struct {
	Pkg      string
	Path     string
	Funcs    map[string]*FuncContract
	FuncOrder []string
	Specs    map[string]*SpecFunc
	SpecOrder []string
	Monitors []*Monitor
	Lemmas   []*Lemma
	Invs     []*StructInv
	Globals  []*GlobalDecl
	Immutable []string // "T.f": fields never written after construction (kept across havocs; writes are obligations)
	Axioms   []*Clause
	LockOrder [][]string
}

var clauseKeywords = map[string]bool{
	"tags": true, "safetytags": true, "requires": true, "ensures": true, "atrelease": true, "modifies": true, "loop": true, "invariant": true,
	"trusted": true, "pure": true, "safety": true, "nosafety": true, "inline": true, "acquires": true, "releases": true,
	"site": true, "params": true, "hyp": true, "show": true, "vars": true, "smt": true, "protects": true, "inv": true, "guar": true,
	"havoc": true, "ghostflag": true, "dyncall": true, "rely": true, "nolockif": true, "owns": true, "loopmodifies": true, "assume": true, "trust": true, "use": true,
}
var declKeywords = map[string]bool{
	"func": true, "spec": true, "immutable": true, "monitor": true, "lemma": true, "structinv": true, "global": true, "axiom": true, "order": true, "libspec": true, "iface": true,
}

func parseContractFile(path, pkg string) (*ContractFile, error) {
	data, err := os.ReadFile(path)
	if err != nil {
		return nil, err
	}
	cf := &ContractFile{Pkg: pkg, Path: path, Funcs: map[string]*FuncContract{}, Specs: map[string]*SpecFunc{}}
	type rawLine struct {
		text string
		line int
	}
	var lines []rawLine
	for i, l := range strings.Split(string(data), "\n") {
		t := strings.TrimSpace(l)
		if !strings.HasPrefix(t, "//@") {
			continue
		}
		t = strings.TrimSpace(t[3:])
		if t == "" || strings.HasPrefix(t, "#") {
			continue
		}
		lines = append(lines, rawLine{t, i + 1})
	}
	// group into items: keyword + text (with continuations)
	type item struct {
		kw, text string
		line     int
	}
	var items []item
	for _, l := range lines {
		kw, rest := splitWord(l.text)
		if declKeywords[kw] || clauseKeywords[kw] {
			items = append(items, item{kw, rest, l.line})
		} else {
			if len(items) == 0 {
				return nil, fmt.Errorf("%s:%d: continuation without clause", path, l.line)
			}
			items[len(items)-1].text += "\n" + l.text
		}
	}
	var curF *FuncContract
	var curLoop *LoopSpec
	var curMon *Monitor
	var curLemma *Lemma
	var curInv *StructInv
	mode := ""
	mkClause := func(kind, text string, line int) (*Clause, error) {
		c := &Clause{Kind: kind, Line: line, File: path}
		text = strings.TrimSpace(text)
		// optional label "L:" (identifier followed by ':' but not '::' / ':=')
		if i := labelEnd(text); i > 0 {
			c.Label = text[:i]
			text = strings.TrimSpace(text[i+1:])
		}
		if strings.HasPrefix(text, "[") {
			if j := strings.Index(text, "]"); j > 0 && isTagList(text[1:j]) {
				c.Tags = strings.Fields(text[1:j])
				text = strings.TrimSpace(text[j+1:])
			}
		}
		c.Text = text
		if kind != "modifies" && kind != "smt" && kind != "loopmodifies" {
			e, err := parseExpr(text)
			if err != nil {
				return nil, fmt.Errorf("%s:%d: %v in %q", path, line, err, text)
			}
			c.Expr = e
		}
		return c, nil
	}
	for _, it := range items {
		switch it.kw {
		case "func", "libspec", "iface":
			key := strings.TrimSpace(it.text)
			curF = &FuncContract{Key: key, Pkg: pkg, Line: it.line, File: path, Extra: map[string][]*Clause{}}
			if it.kw == "libspec" || it.kw == "iface" {
				curF.Trusted = it.kw == "libspec"
			}
			if _, dup := cf.Funcs[key]; dup {
				return nil, fmt.Errorf("%s:%d: duplicate contract for %s", path, it.line, key)
			}
			cf.Funcs[key] = curF
			cf.FuncOrder = append(cf.FuncOrder, key)
			curLoop, mode = nil, "func"
		case "spec":
			sf, err := parseSpecDecl(it.text)
			if err != nil {
				return nil, fmt.Errorf("%s:%d: %v", path, it.line, err)
			}
			sf.Line = it.line
			cf.Specs[sf.Name] = sf
			cf.SpecOrder = append(cf.SpecOrder, sf.Name)
			mode = "spec"
		case "monitor":
			// monitor (s *T) lockField
			m, err := parseMonitorDecl(it.text)
			if err != nil {
				return nil, fmt.Errorf("%s:%d: %v", path, it.line, err)
			}
			m.Line = it.line
			cf.Monitors = append(cf.Monitors, m)
			curMon, mode = m, "monitor"
		case "structinv":
			rn, rt, rest, err := parseRecv(it.text)
			if err != nil {
				return nil, fmt.Errorf("%s:%d: %v", path, it.line, err)
			}
			curInv = &StructInv{RecvName: rn, RecvType: rt}
			cf.Invs = append(cf.Invs, curInv)
			mode = "structinv"
			if strings.TrimSpace(rest) != "" {
				c, err := mkClause("inv", rest, it.line)
				if err != nil {
					return nil, err
				}
				curInv.Clauses = append(curInv.Clauses, c)
			}
		case "lemma":
			name, rest := splitWord(it.text)
			curLemma = &Lemma{Name: name, Line: it.line, File: path}
			if strings.HasPrefix(strings.TrimSpace(rest), "tags") {
				curLemma.Tags = strings.Fields(strings.TrimSpace(rest)[4:])
			}
			cf.Lemmas = append(cf.Lemmas, curLemma)
			mode = "lemma"
		case "immutable":
			cf.Immutable = append(cf.Immutable, strings.Fields(strings.ReplaceAll(it.text, ",", " "))...)
		case "global":
			name, rest := splitWord(it.text)
			cf.Globals = append(cf.Globals, &GlobalDecl{Name: name, Mode: strings.TrimSpace(rest), Line: it.line})
		case "order":
			cf.LockOrder = append(cf.LockOrder, strings.Fields(strings.ReplaceAll(it.text, "<", " ")))
		case "axiom":
			c, err := mkClause("axiom", it.text, it.line)
			if err != nil {
				return nil, err
			}
			cf.Axioms = append(cf.Axioms, c)
		default:
			// clauses
			switch mode {
			case "func":
				switch it.kw {
				case "tags":
					curF.Tags = append(curF.Tags, strings.Fields(it.text)...)
				case "safetytags":
					curF.SafetyTags = append(curF.SafetyTags, strings.Fields(it.text)...)
				case "requires", "ensures", "atrelease":
					c, err := mkClause(it.kw, it.text, it.line)
					if err != nil {
						return nil, err
					}
					if it.kw == "requires" {
						curF.Requires = append(curF.Requires, c)
					} else if it.kw == "atrelease" {
						curF.AtRelease = append(curF.AtRelease, c)
					} else {
						curF.Ensures = append(curF.Ensures, c)
					}
				case "modifies":
					curF.HasModifies = true
					if curLoop != nil && false {
					}
					c := &Clause{Kind: "modifies", Text: strings.TrimSpace(it.text), Line: it.line, File: path}
					curF.Modifies = append(curF.Modifies, c)
				case "loopmodifies":
					if curLoop == nil {
						return nil, fmt.Errorf("%s:%d: loopmodifies outside loop", path, it.line)
					}
					curLoop.Modifies = append(curLoop.Modifies, &Clause{Kind: "modifies", Text: strings.TrimSpace(it.text), Line: it.line, File: path})
				case "loop":
					curLoop = &LoopSpec{Key: strings.TrimSpace(it.text), Line: it.line}
					curF.Loops = append(curF.Loops, curLoop)
				case "invariant":
					if curLoop == nil {
						return nil, fmt.Errorf("%s:%d: invariant outside loop", path, it.line)
					}
					c, err := mkClause("invariant", it.text, it.line)
					if err != nil {
						return nil, err
					}
					curLoop.Invariants = append(curLoop.Invariants, c)
				case "trusted":
					curF.Trusted = true
				case "pure":
					curF.Pure = true
				case "safety":
					curF.Safety = true
					curF.SafetyKinds = strings.Fields(it.text)
				case "nosafety":
					curF.NoSafety = true
				case "inline":
					curF.Inline = true
				case "acquires":
					curF.Acquires = append(curF.Acquires, strings.Fields(it.text)...)
				case "releases":
					curF.Releases = append(curF.Releases, strings.Fields(it.text)...)
				case "params":
					curF.Params = strings.Fields(strings.ReplaceAll(it.text, ",", " "))
				case "ghostflag":
					// ghostflag <name> set <kind>:<pattern> [clear <kind>:<pattern>]
					curF.Flags = append(curF.Flags, strings.Fields(it.text))
				case "dyncall":
					curF.DynCalls = append(curF.DynCalls, it.text)
				case "havoc":
					curF.Havoc = append(curF.Havoc, strings.Fields(strings.ReplaceAll(it.text, ",", " "))...)
				case "site":
					// site <kind> <pattern> [label:] requires <expr>
					kind, rest := splitWord(it.text)
					pat, rest2 := splitWord(rest)
					i := strings.Index(rest2, "requires")
					if i < 0 {
						return nil, fmt.Errorf("%s:%d: site without requires", path, it.line)
					}
					head := strings.TrimSpace(rest2[:i])
					c, err := mkClause("site", head+" "+rest2[i+len("requires"):], it.line)
					if err != nil {
						return nil, err
					}
					curF.Sites = append(curF.Sites, &SiteSpec{Kind: kind, Pattern: pat, Label: c.Label, Tags: c.Tags, Text: c.Text, Expr: c.Expr, Line: it.line})
				case "assume", "trust", "rely", "nolockif", "owns":
					c, err := mkClause(it.kw, it.text, it.line)
					if err != nil {
						return nil, err
					}
					curF.Extra[it.kw] = append(curF.Extra[it.kw], c)
				default:
					return nil, fmt.Errorf("%s:%d: clause %q not valid in func", path, it.line, it.kw)
				}
			case "monitor":
				switch it.kw {
				case "protects":
					curMon.Protects = append(curMon.Protects, strings.Fields(strings.ReplaceAll(it.text, ",", " "))...)
				case "inv", "guar":
					c, err := mkClause(it.kw, it.text, it.line)
					if err != nil {
						return nil, err
					}
					if it.kw == "inv" {
						curMon.Invs = append(curMon.Invs, c)
					} else {
						curMon.Guars = append(curMon.Guars, c)
					}
				default:
					return nil, fmt.Errorf("%s:%d: clause %q not valid in monitor", path, it.line, it.kw)
				}
			case "structinv":
				c, err := mkClause("inv", it.text, it.line)
				if err != nil {
					return nil, err
				}
				curInv.Clauses = append(curInv.Clauses, c)
			case "lemma":
				switch it.kw {
				case "tags":
					curLemma.Tags = append(curLemma.Tags, strings.Fields(it.text)...)
				case "vars":
					ps, err := parseParams(it.text)
					if err != nil {
						return nil, fmt.Errorf("%s:%d: %v", path, it.line, err)
					}
					curLemma.Vars = append(curLemma.Vars, ps...)
				case "hyp", "show":
					c, err := mkClause(it.kw, it.text, it.line)
					if err != nil {
						return nil, err
					}
					if it.kw == "hyp" {
						curLemma.Hyps = append(curLemma.Hyps, c)
					} else {
						curLemma.Show = append(curLemma.Show, c)
					}
				case "smt":
					curLemma.Raw += it.text + "\n"
				case "trust":
					curLemma.Trust = append(curLemma.Trust, strings.TrimSpace(it.text))
				case "use":
					curLemma.Uses = append(curLemma.Uses, strings.TrimSpace(it.text))
				default:
					return nil, fmt.Errorf("%s:%d: clause %q not valid in lemma", path, it.line, it.kw)
				}
			default:
				return nil, fmt.Errorf("%s:%d: clause %q outside declaration", path, it.line, it.kw)
			}
		}
	}
	assignDefaultLabels(cf)
	return cf, nil
}

func isTagList(s string) bool {
	fs := strings.Fields(s)
	if len(fs) == 0 {
		return false
	}
	for _, f := range fs {
		if len(f) < 3 || f[0] != 'C' {
			return false
		}
		for _, c := range f[1:] {
			if c < '0' || c > '9' {
				return false
			}
		}
	}
	return true
}

func splitWord(s string) (string, string) {
	s = strings.TrimSpace(s)
	for i, c := range s {
		if c == ' ' || c == '\t' || c == '\n' {
			return s[:i], strings.TrimSpace(s[i:])
		}
	}
	return s, ""
}

func labelEnd(s string) int {
	for i, c := range s {
		if c == ':' {
			if i == 0 {
				return -1
			}
			if i+1 < len(s) && (s[i+1] == ':' || s[i+1] == '=') {
				return -1
			}
			return i
		}
		if !(c >= 'a' && c <= 'z' || c >= 'A' && c <= 'Z' || c >= '0' && c <= '9' || c == '_' || c == '-' || c == '.') {
			return -1
		}
	}
	return -1
}

func parseRecv(s string) (name, typ, rest string, err error) {
	s = strings.TrimSpace(s)
	if !strings.HasPrefix(s, "(") {
		return "", "", "", fmt.Errorf("expected (recv *T)")
	}
	i := strings.Index(s, ")")
	if i < 0 {
		return "", "", "", fmt.Errorf("unclosed receiver")
	}
	fs := strings.Fields(s[1:i])
	if len(fs) != 2 {
		return "", "", "", fmt.Errorf("receiver must be (name *T)")
	}
	return fs[0], strings.TrimPrefix(fs[1], "*"), strings.TrimSpace(s[i+1:]), nil
}

func parseMonitorDecl(s string) (*Monitor, error) {
	rn, rt, rest, err := parseRecv(s)
	if err != nil {
		return nil, err
	}
	lock, _ := splitWord(rest)
	if lock == "" {
		return nil, fmt.Errorf("monitor needs a lock field")
	}
	return &Monitor{RecvName: rn, RecvType: rt, Lock: lock}, nil
}

func parseParams(s string) ([]Param, error) {
	var ps []Param
	for _, p := range strings.Split(s, ",") {
		p = strings.TrimSpace(p)
		if p == "" {
			continue
		}
		n, t := splitWord(p)
		if t == "" {
			return nil, fmt.Errorf("parameter %q needs a type", p)
		}
		ps = append(ps, Param{n, t})
	}
	return ps, nil
}

// spec name(p T, q U) R [:= expr]
func parseSpecDecl(s string) (*SpecFunc, error) {
	i := strings.Index(s, "(")
	if i < 0 {
		return nil, fmt.Errorf("spec needs parameter list")
	}
	name := strings.TrimSpace(s[:i])
	d, j := 0, -1
	for k := i; k < len(s); k++ {
		if s[k] == '(' {
			d++
		} else if s[k] == ')' {
			d--
			if d == 0 {
				j = k
				break
			}
		}
	}
	if j < 0 {
		return nil, fmt.Errorf("unclosed parameter list")
	}
	ps, err := parseParams(s[i+1 : j])
	if err != nil {
		return nil, err
	}
	rest := strings.TrimSpace(s[j+1:])
	sf := &SpecFunc{Name: name, Params: ps, Text: s}
	if k := strings.Index(rest, ":="); k >= 0 {
		sf.Ret = strings.TrimSpace(rest[:k])
		body := strings.TrimSpace(rest[k+2:])
		e, err := parseExpr(body)
		if err != nil {
			return nil, fmt.Errorf("spec %s: %v", name, err)
		}
		sf.Body = e
		sf.Rec = exprMentionsCall(e, name)
	} else {
		sf.Ret = rest
	}
	if sf.Ret == "" {
		return nil, fmt.Errorf("spec %s needs a result type", name)
	}
	return sf, nil
}

func contractPath(repo, pkg string) string {
	return filepath.Join(repo, "pkg", pkg, "verif_contracts.go")
}
