package main

import (
	"fmt"
	"go/types"
	"sort"
	"strings"

	"golang.org/x/tools/go/ssa"
)

type FuncResult struct {
	Key        string
	VC         *VC
	Abstracted []string
	Unbound    []string
	Err        string
}

// verifyFunc builds the VC of one function under its contract.
func (p *Program) verifyFunc(key string, forceSafety bool, extraTags []string) (res *FuncResult) {
	return p.verifyFuncWith(key, forceSafety, extraTags, nil)
}

func (p *Program) verifyFuncWith(key string, forceSafety bool, extraTags []string, wantClass map[string]*KnownFinding) (res *FuncResult) {
	fn := p.funcs[key]
	res = &FuncResult{Key: key}
	if fn == nil {
		res.Err = "function not found"
		return
	}
	if fn.Blocks == nil {
		res.Err = "function has no body"
		return
	}
	vc := newVC(p, key)
	vc.wantClass = wantClass
	res.VC = vc
	defer func() {
		if r := recover(); r != nil {
			res.Err = fmt.Sprintf("engine panic: %v", r)
		}
		res.Abstracted = vc.abstracted
		res.Unbound = vc.unbound
	}()
	f := newFrame(vc, p, fn, nil)
	f.top = true
	ct := f.contract
	if ct != nil {
		for _, r := range ct.Requires {
			if strings.Contains(r.Text, "held(") {
				vc.locksAtEntry = true
			}
		}
		ct.Used = true
		f.safety = ct.Safety && !ct.NoSafety
		f.tags = append([]string{}, ct.Tags...)
	}
	if forceSafety {
		f.safety = true
	}
	for _, t := range extraTags {
		if !contains(f.tags, t) {
			f.tags = append(f.tags, t)
		}
	}
	st := newState()
	vc.regNext()
	f.cur = st
	var args []Val
	for _, prm := range fn.Params {
		s := vc.sortOf(prm.Type())
		n := "p_" + sanitize(prm.Name())
		if vc.declared[n] {
			n = vc.fresh(n, s)
		} else {
			vc.declare(n, s)
		}
		v := Val{n, s}
		vc.assume(vc.rangeFact(prm.Type(), n))
		vc.assume(vc.allocatedFact(st, prm.Type(), n))
		args = append(args, v)
		f.params[prm.Name()] = Bound{V: v, T: prm.Type()}
	}
	for _, fv := range fn.FreeVars {
		n := vc.fresh("fv_"+fv.Name(), "Int")
		vc.assume(fmt.Sprintf("(> %s 0)", n))
		vc.assume(vc.allocatedFact(st, fv.Type(), n))
		f.freeVars[fv] = Val{n, "Int"}
		f.noteFrozen(fv, n)
	}
	vc.assume(fmt.Sprintf("(> %s 0)", vc.get(st, "next")))
	vc.regComp("Own_SendCnt", "Int")
	st.comp["Own_SendCnt"] = "0"
	vc.regComp("Own_SendBytes", "Int")
	st.comp["Own_SendBytes"] = "0"
	if ct != nil {
		for _, fl := range ct.Flags {
			if len(fl) > 0 {
				vc.regComp(flagComp(fl[0]), "Bool")
				st.comp[flagComp(fl[0])] = "false"
			}
		}
	}
	f.entry = st.clone()
	// implicit lock preconditions: locks this function takes on its parameters are free at entry
	for _, il := range p.implicitLocks(fn) {
		comp := heldComp(il.structT, il.field)
		vc.regComp(comp, "(Array Int Int)")
		vc.assume(fmt.Sprintf("(= (select %s %s) 0)", vc.get(st, comp), args[il.param].T))
	}
	// struct invariants of parameters
	for i, prm := range fn.Params {
		p.assumeStructInv(vc, st, args[i], prm.Type())
	}
	if ct != nil {
		env := f.envAt(st, nil)
		for _, r := range ct.Requires {
			t, err := env.evalBool(r.Expr)
			if err != nil {
				vc.unbound = append(vc.unbound, fmt.Sprintf("%s: requires %s: %v", key, r.Label, err))
				continue
			}
			vc.assume(t)
		}
		f.initOwned(env)
		for _, r := range ct.Extra["rely"] {
			t, err := env.evalBool(r.Expr)
			if err != nil {
				vc.unbound = append(vc.unbound, fmt.Sprintf("%s: rely %s: %v", key, r.Label, err))
				continue
			}
			vc.assume(t)
			vc.trust(fmt.Sprintf("rely in %s: %s", key, r.Text))
		}
		for _, r := range ct.Extra["assume"] {
			t, err := env.evalBool(r.Expr)
			if err != nil {
				vc.unbound = append(vc.unbound, fmt.Sprintf("%s: assume %s: %v", key, r.Label, err))
				continue
			}
			vc.assume(t)
			vc.trust(fmt.Sprintf("assume in %s: %s", key, r.Text))
		}
	}
	// vacuity guard: preconditions are satisfiable
	vc.addObl(&Obligation{Name: key + "#vacuity:requires-satisfiable", Kind: "cover", Tags: f.tags, Guard: "true", Cond: "false", Cover: true})
	f.entry = st.clone()
	results, final, g := f.run(args, st, "true")
	if ct == nil {
		return
	}
	f.atExit = true
	env := f.envAt(final, nil)
	env.old = f.entry
	sig := fn.Signature
	for i := 0; i < sig.Results().Len() && i < len(results); i++ {
		env.results = append(env.results, Bound{V: results[i], T: sig.Results().At(i).Type()})
		if n := sig.Results().At(i).Name(); n != "" {
			env.vars[n] = Bound{V: results[i], T: sig.Results().At(i).Type()}
		}
	}
	env.acq = f.lastAcq
	for _, en := range append(append([]*Clause{}, ct.Ensures...), ct.AtRelease...) {
		if strings.HasPrefix(en.Label, "TRUSTED") {
			// assumed at call sites, not proved here (naming of a deterministic library/registry result)
			vc.trust(fmt.Sprintf("assumed postcondition %s#%s: %s", key, en.Label, en.Text))
			continue
		}
		t, err := env.evalBool(en.Expr)
		if err != nil {
			vc.unbound = append(vc.unbound, fmt.Sprintf("%s: ensures %s: %v", key, en.Label, err))
			continue
		}
		lbl := orDefault(en.Label, fmt.Sprintf("L%d", en.Line))
		f.assertObl("ensures", lbl, en.Tags, g, t, fmt.Sprintf("%s:%d", shortPath(en.File), en.Line))
	}
	// a normal return must be reachable (cover), unless the function never returns by design
	if len(f.rets) > 0 {
		vc.addObl(&Obligation{Name: key + "#vacuity:return-reachable", Kind: "cover", Tags: f.tags, Guard: "true", Cond: not(g), Cover: true})
	}
	if ct.HasModifies || ct.Pure {
		f.frameObligations(ct, final, g)
	}
	f.unmatchedSites(ct, key)
	return
}

func shortPath(s string) string {
	if i := strings.Index(s, "/pkg/"); i >= 0 {
		return s[i+1:]
	}
	return s
}

func contains(xs []string, x string) bool {
	for _, y := range xs {
		if y == x {
			return true
		}
	}
	return false
}

func (f *Frame) analyzeLoopsOnce() {}

// assumeStructInv: declared struct invariants hold for every parameter of that pointer type
func (p *Program) assumeStructInv(vc *VC, st *State, v Val, t types.Type) {
	pt, ok := t.Underlying().(*types.Pointer)
	if !ok {
		return
	}
	n, ok := pt.Elem().(*types.Named)
	if !ok || n.Obj().Pkg() == nil {
		return
	}
	cf, ok := p.contracts[n.Obj().Pkg().Name()]
	if !ok {
		return
	}
	for _, si := range cf.Invs {
		if si.RecvType != n.Obj().Name() {
			continue
		}
		env := &Env{vc: vc, p: p, pkg: cf.Pkg, vars: map[string]Bound{si.RecvName: {V: v, T: t}}, state: st, old: st}
		for _, c := range si.Clauses {
			tm, err := env.evalBool(c.Expr)
			if err != nil {
				vc.unbound = append(vc.unbound, fmt.Sprintf("structinv %s: %v", si.RecvType, err))
				continue
			}
			vc.assume(implies(not(eq(v.T, "0")), tm))
		}
		vc.trust("struct invariant of " + si.RecvType + " assumed for parameters (established by constructors)")
	}
}

type modSet struct {
	whole bool
	bases []string
}

// frameObligations: everything outside the modifies clause is unchanged.
func (f *Frame) frameObligations(ct *FuncContract, final *State, g string) {
	vc := f.vc
	env := f.envAt(f.entry, nil)
	env.old = f.entry
	allowed := map[string]*modSet{}
	add := func(comp string, whole bool, base string) {
		ms := allowed[comp]
		if ms == nil {
			ms = &modSet{}
			allowed[comp] = ms
		}
		if whole {
			ms.whole = true
		} else {
			ms.bases = append(ms.bases, base)
		}
	}
	all := false
	for _, m := range ct.Modifies {
		for _, item := range splitTop(m.Text, ',') {
			item = strings.TrimSpace(item)
			switch {
			case item == "" || item == "nothing":
			case item == "*":
				all = true
			case strings.HasPrefix(item, "comp:"):
				add(strings.TrimPrefix(item, "comp:"), true, "")
			case strings.HasPrefix(item, "ghost:"):
				add("Ghost_"+strings.TrimPrefix(item, "ghost:"), true, "")
			case strings.HasPrefix(item, "mem(") && strings.HasSuffix(item, ")"):
				ex, err := parseExpr(item[4 : len(item)-1])
				if err != nil {
					continue
				}
				b, err := env.eval(ex)
				if err != nil {
					vc.unbound = append(vc.unbound, fmt.Sprintf("%s: modifies %s: %v", f.key, item, err))
					continue
				}
				if st, ok := b.T.Underlying().(*types.Slice); ok {
					add(vc.regMem(st.Elem()), false, "(s-ref "+b.V.T+")")
				}
			case strings.HasPrefix(item, "map(") && strings.HasSuffix(item, ")"):
				ex, err := parseExpr(item[4 : len(item)-1])
				if err != nil {
					continue
				}
				b, err := env.eval(ex)
				if err != nil {
					vc.unbound = append(vc.unbound, fmt.Sprintf("%s: modifies %s: %v", f.key, item, err))
					continue
				}
				if mt, ok := b.T.Underlying().(*types.Map); ok {
					h, v := vc.regMap(mt)
					add(h, false, b.V.T)
					add(v, false, b.V.T)
				}
			case strings.HasPrefix(item, "*"):
				ex, err := parseExpr(item[1:])
				if err != nil {
					continue
				}
				b, err := env.eval(ex)
				if err != nil {
					vc.unbound = append(vc.unbound, fmt.Sprintf("%s: modifies %s: %v", f.key, item, err))
					continue
				}
				if pt, ok := b.T.Underlying().(*types.Pointer); ok {
					if isStruct(pt.Elem()) {
						for _, l := range structLeaves(pt.Elem(), nil) {
							n, _ := vc.regField(pt.Elem(), l.path)
							add(n, false, b.V.T)
						}
					} else {
						add(vc.regCell(pt.Elem()), false, b.V.T)
					}
				}
			default:
				ex, err := parseExpr(item)
				if err != nil || ex.Op != "sel" {
					continue
				}
				if ex.Args[0].Op == "ident" {
					if _, isVar := env.vars[ex.Args[0].Name]; !isVar {
						if t := f.p.lookupType(env.pkg, ex.Args[0].Name); t != nil && isStruct(t) {
							if path, ft, ok := findField(t, ex.Name); ok {
								if isStruct(ft) {
									for _, l := range structLeaves(ft, nil) {
										n, _ := vc.regField(t, append(append([]int{}, path...), l.path...))
										add(n, true, "")
									}
								} else {
									n, _ := vc.regField(t, path)
									add(n, true, "")
								}
							}
							continue
						}
					}
				}
				b, err := env.eval(ex.Args[0])
				if err != nil {
					vc.unbound = append(vc.unbound, fmt.Sprintf("%s: modifies %s: %v", f.key, item, err))
					continue
				}
				pt, ok := b.T.Underlying().(*types.Pointer)
				if !ok {
					continue
				}
				if path, ft, ok := findField(pt.Elem(), ex.Name); ok {
					if isStruct(ft) {
						for _, l := range structLeaves(ft, nil) {
							n, _ := vc.regField(pt.Elem(), append(append([]int{}, path...), l.path...))
							add(n, false, b.V.T)
						}
					} else {
						n, _ := vc.regField(pt.Elem(), path)
						add(n, false, b.V.T)
					}
				}
			}
		}
	}
	if all {
		return
	}
	var comps []string
	for c := range vc.comps {
		comps = append(comps, c)
	}
	sort.Strings(comps)
	nextEntry := vc.get(f.entry, "next")
	for _, c := range comps {
		if isGhostComp(c) {
			continue
		}
		cur, ent := vc.get(final, c), vc.get(f.entry, c)
		if _, ok := vc.comps["Base_"+c]; ok {
			ent = vc.get(final, "Base_"+c)
		}
		if cur == ent {
			continue
		}
		ms := allowed[c]
		if ms != nil && ms.whole {
			continue
		}
		sortName := vc.comps[c].sort
		if !strings.HasPrefix(sortName, "(Array Int ") {
			// scalar component (global)
			f.assertObl("frame", c, nil, g, eq(cur, ent), "")
			continue
		}
		var excl []string
		if ms != nil {
			for _, b := range ms.bases {
				excl = append(excl, not(eq("r", b)))
			}
		}
		cond := fmt.Sprintf("(forall ((r Int)) (=> %s (= (select %s r) (select %s r))))", and(append([]string{"(< r " + nextEntry + ")", "(>= r 0)"}, excl...)...), cur, ent)
		f.assertObl("frame", c, nil, g, cond, "")
	}
}

func isGhostComp(c string) bool {
	for _, p := range []string{"Own_", "Ghost_", "Base_", "Held_", "Defer_", "Visited_", "Spawn_", "SpawnArg_", "Bind_", "SentCnt_", "SentVal_"} {
		if strings.HasPrefix(c, p) {
			return true
		}
	}
	return c == "next" || c == "now"
}

var _ = ssa.NaiveForm
