package main

// Cone-of-influence slicing of a VC: only the facts, axioms and declarations connected (through shared symbols)
// to the goal are emitted.  Dropping assumptions is always sound for a proof.

import (
	"fmt"
	"strings"
	"sync"
)

type sliceIndex struct {
	once     sync.Once
	declSyms [][]string       // symbols of each decl line
	factSyms [][]string       // symbols of each fact
	bySym    map[string][]int // symbol -> item ids (decl i -> i, fact j -> len(decls)+j)
	declName []string         // for declare-* lines: the declared name
	isAxiom  []bool
}

var stopSyms = map[string]bool{}

func init() {
	for _, s := range strings.Fields(`assert forall exists let and or not ite select store true false Int Bool Real Array as const
		declare const fun sort datatypes define rec pattern distinct mod div abs to_real to_int
		Str Slice Iface slen sat str_empty sconcat ssub mk slice nil s ref off len cap sidx itag inil wrap8 wrap16 wrap32
		swrap8 swrap16 swrap32 imin imax r i q o a b lo hi kk x`) {
		stopSyms[s] = true
	}
	for _, s := range []string{"mk-slice", "nil-slice", "s-ref", "s-off", "s-len", "s-cap", "declare-const", "declare-fun", "define-fun", "define-fun-rec", "declare-datatypes", "declare-sort"} {
		stopSyms[s] = true
	}
}

func symbolsOf(s string) []string {
	var out []string
	seen := map[string]bool{}
	i := 0
	for i < len(s) {
		c := s[i]
		if c == ';' { // comment to end of line
			for i < len(s) && s[i] != '\n' {
				i++
			}
			continue
		}
		if c == '_' || (c >= 'a' && c <= 'z') || (c >= 'A' && c <= 'Z') {
			j := i
			for j < len(s) && (s[j] == '_' || s[j] == '-' || (s[j] >= 'a' && s[j] <= 'z') || (s[j] >= 'A' && s[j] <= 'Z') || (s[j] >= '0' && s[j] <= '9')) {
				j++
			}
			w := s[i:j]
			if !stopSyms[w] && !seen[w] && !strings.HasPrefix(w, "q_") {
				seen[w] = true
				out = append(out, w)
			}
			i = j
			continue
		}
		i++
	}
	return out
}

func (vc *VC) buildSliceIndex() *sliceIndex {
	vc.sliceMu.Lock()
	defer vc.sliceMu.Unlock()
	if vc.slice != nil && vc.slice.nDecls == len(vc.decls) && vc.slice.nFacts == len(vc.facts) {
		return vc.slice.idx
	}
	idx := &sliceIndex{bySym: map[string][]int{}}
	idx.declSyms = make([][]string, len(vc.decls))
	idx.declName = make([]string, len(vc.decls))
	idx.isAxiom = make([]bool, len(vc.decls))
	for i, d := range vc.decls {
		if strings.HasPrefix(d, "(assert") {
			idx.isAxiom[i] = true
			idx.declSyms[i] = symbolsOf(d)
			for _, s := range idx.declSyms[i] {
				idx.bySym[s] = append(idx.bySym[s], i)
			}
			continue
		}
		// declaration: "(declare-const NAME ..." / "(declare-fun NAME" / "(define-fun NAME" / datatypes
		fs := strings.Fields(strings.NewReplacer("(", " ", ")", " ").Replace(d))
		if len(fs) >= 2 {
			idx.declName[i] = fs[1]
		}
		idx.declSyms[i] = symbolsOf(d)
	}
	idx.factSyms = make([][]string, len(vc.facts))
	for j, f := range vc.facts {
		idx.factSyms[j] = symbolsOf(f)
		// a definition "(= name term)" matters only when name matters: follow definitions backwards only
		if strings.HasPrefix(f, "(= ") && len(idx.factSyms[j]) > 0 && strings.HasPrefix(f[3:], idx.factSyms[j][0]+" ") {
			s := idx.factSyms[j][0]
			idx.bySym[s] = append(idx.bySym[s], len(vc.decls)+j)
			continue
		}
		onlyGuards := true
		for _, s := range idx.factSyms[j] {
			if !(strings.HasPrefix(s, "g_b") || strings.HasPrefix(s, "g_exit")) {
				onlyGuards = false
			}
		}
		for _, s := range idx.factSyms[j] {
			if !onlyGuards && (strings.HasPrefix(s, "g_b") || strings.HasPrefix(s, "g_exit")) {
				continue // block guards alone do not make a guarded assumption relevant
			}
			// a fact about guards only (a path that is cut: "guard => false") is relevant to those guards
			idx.bySym[s] = append(idx.bySym[s], len(vc.decls)+j)
		}
	}
	vc.slice = &sliceCache{idx: idx, nDecls: len(vc.decls), nFacts: len(vc.facts)}
	return idx
}

type sliceCache struct {
	idx            *sliceIndex
	nDecls, nFacts int
}

// emitSliced writes the query for one obligation, restricted to its cone of influence.
func (vc *VC) emitSliced(o *Obligation, withModel bool) string {
	idx := vc.buildSliceIndex()
	nd := len(vc.decls)
	goal := "(assert (not " + implies(o.Guard, o.Cond) + "))"
	rel := map[string]bool{}
	var work []string
	add := func(syms []string) {
		for _, s := range syms {
			if !rel[s] {
				rel[s] = true
				work = append(work, s)
			}
		}
	}
	add(symbolsOf(goal))
	for _, e := range o.Extra {
		add(symbolsOf(e))
	}
	for i, d := range vc.decls {
		if d != "" && !idx.isAxiom[i] && !strings.HasPrefix(d, "(declare-const") && !strings.HasPrefix(d, "(declare-fun") {
			add(idx.declSyms[i]) // definitions are always emitted: what they mention must be declared
		}
	}
	incDecl := make([]bool, nd)
	incFact := make([]bool, o.FactIdx)
	for len(work) > 0 {
		s := work[len(work)-1]
		work = work[:len(work)-1]
		for _, id := range idx.bySym[s] {
			if id < nd {
				if !incDecl[id] {
					incDecl[id] = true
					add(idx.declSyms[id])
				}
			} else if j := id - nd; j < o.FactIdx {
				if !incFact[j] {
					incFact[j] = true
					add(idx.factSyms[j])
				}
			}
		}
	}
	var b strings.Builder
	b.WriteString(prelude)
	// declarations: datatype/sort/define lines are kept when they declare a relevant name or are structural
	for i, d := range vc.decls {
		if d == "" {
			continue
		}
		if idx.isAxiom[i] {
			if incDecl[i] {
				b.WriteString(d)
				b.WriteByte('\n')
			}
			continue
		}
		name := idx.declName[i]
		if strings.HasPrefix(d, "(declare-const") || strings.HasPrefix(d, "(declare-fun") {
			if rel[name] {
				b.WriteString(d)
				b.WriteByte('\n')
			}
			continue
		}
		// datatypes, define-fun, define-fun-rec, raw smt: keep (they may be referenced by sorts)
		b.WriteString(d)
		b.WriteByte('\n')
	}
	// distinct literals that are relevant
	var lits []string
	for _, c := range vc.strlits {
		if rel[c] {
			lits = append(lits, c)
		}
	}
	if len(lits) > 0 {
		sortStrings(lits)
		b.WriteString("(assert (distinct str_empty " + strings.Join(lits, " ") + "))\n")
	}
	for j := 0; j < o.FactIdx; j++ {
		if incFact[j] {
			b.WriteString("(assert ")
			b.WriteString(vc.facts[j])
			b.WriteString(")\n")
		}
	}
	for _, e := range o.Extra {
		b.WriteString("(assert " + e + ")\n")
	}
	fmt.Fprintf(&b, "; obligation %s\n", o.Name)
	b.WriteString(goal + "\n(check-sat)\n")
	if withModel {
		b.WriteString("(get-model)\n")
	}
	return b.String()
}

func sortStrings(xs []string) {
	for i := 1; i < len(xs); i++ {
		for j := i; j > 0 && xs[j] < xs[j-1]; j-- {
			xs[j], xs[j-1] = xs[j-1], xs[j]
		}
	}
}
