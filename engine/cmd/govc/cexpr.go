package main

// Evaluation of contract expressions to SMT terms.

import (
	"fmt"
	"go/types"
	"os"
	"strconv"
	"strings"

	"golang.org/x/tools/go/ssa"
)

type Env struct {
	f       *Frame
	vc      *VC
	p       *Program
	pkg     string
	vars    map[string]Bound
	state   *State
	old     *State
	results []Bound
	loop    *loopInfo
	lookup  func(name string) (Bound, bool)
	acq     *State
}

func (e *Env) child() *Env {
	n := *e
	n.vars = map[string]Bound{}
	for k, v := range e.vars {
		n.vars[k] = v
	}
	return &n
}

var untypedNil = types.Typ[types.UntypedNil]

func (f *Frame) envAt(st *State, li *loopInfo) *Env {
	e := &Env{f: f, vc: f.vc, p: f.p, pkg: f.p.pkgShort(f.fn), vars: map[string]Bound{}, state: st, old: f.entry, loop: li}
	for k, v := range f.params {
		e.vars[k] = v
	}
	e.lookup = func(name string) (Bound, bool) { return f.lookupLocal(name, st, li) }
	return e
}

// lookupLocal resolves a local variable name at the current point.
func (f *Frame) lookupLocal(name string, st *State, li *loopInfo) (Bound, bool) {
	// 1. phi of the loop (innermost first)
	for l := li; l != nil; l = nil {
		for _, ph := range l.phis {
			if ph.Comment == name {
				return Bound{V: f.vals[ph], T: ph.Type()}, true
			}
		}
	}
	// bindings of the name that are already computed; the closest one dominating the current block wins.
	// A binding is either a value (phi, or the value a DebugRef names) or a cell (address-taken variable).
	type cand struct {
		v      ssa.Value
		isCell bool
	}
	var best *cand
	bestDepth, bestPos := -1, -1
	var any *cand
	var lastValue *cand // the last binding to a computed (non-constant) value, in block order
	consider := func(v ssa.Value, isCell bool, b *ssa.BasicBlock, pos int) {
		c := &cand{v, isCell}
		any = c
		if _, isConst := v.(*ssa.Const); !isConst && !isCell {
			lastValue = c
		}
		if os.Getenv("GOVC_DEBUG_LOOKUP") == name {
			fmt.Fprintf(os.Stderr, "  cand %s: %v (%T) block %v pos %d\n", name, v, v, b, pos)
		}
		if f.curBlock == nil || !(b == f.curBlock || b.Dominates(f.curBlock)) {
			return
		}
		d := 0
		for x := b; x != nil; x = x.Idom() {
			d++
		}
		if d > bestDepth || (d == bestDepth && pos >= bestPos) {
			bestDepth, bestPos, best = d, pos, c
		}
	}
	for _, b := range f.fn.Blocks {
		for pos, in := range b.Instrs {
			switch x := in.(type) {
			case *ssa.Phi:
				if x.Comment == name {
					if _, ok := f.vals[x]; ok {
						consider(x, false, b, pos)
					}
				}
			case *ssa.Alloc:
				if x.Comment == name {
					if _, ok := f.vals[x]; ok {
						consider(x, true, b, pos)
					}
				}
			case *ssa.DebugRef:
				if x.Object() != nil && x.Object().Name() == name {
					if _, ok := f.vals[x.X]; ok {
						consider(x.X, x.IsAddr, b, pos)
					} else if _, isC := x.X.(*ssa.Const); isC && !x.IsAddr {
						consider(x.X, false, b, pos)
					}
				}
			}
		}
	}
	// free variables (closures): captured variables are pointers to cells
	for _, fv := range f.fn.FreeVars {
		if fv.Name() == name {
			if l, ok := f.locOf(fv); ok {
				return Bound{V: f.vc.load(st, l), T: l.typ}, true
			}
		}
	}
	pick := best
	if pick == nil {
		pick = any
	}
	if pick != nil && !pick.isCell {
		if k, ok := pick.v.(*ssa.Const); ok && k.IsNil() {
			if alt := f.altBinding(name); alt != nil {
				pick = &cand{alt, false}
			} else if lastValue != nil && f.atExit {
				// a postcondition is evaluated over the merged returns, where no block is "current": the variable's
				// last computed binding (typically the phi after the branches that assign it) is what the function
				// ended with; its defining facts are guarded by its block, so this is sound on paths that skip it
				pick = lastValue
			}
		}
	}
	// an address-taken variable has one cell: its current content is the value, whatever was last assigned
	for _, b := range f.fn.Blocks {
		for _, in := range b.Instrs {
			if a, ok := in.(*ssa.Alloc); ok && a.Comment == name {
				if _, ok := f.vals[a]; ok && a.Heap {
					pick = &cand{a, true}
				}
			}
		}
	}
	if pick == nil {
		return Bound{}, false
	}
	if os.Getenv("GOVC_DEBUG_LOOKUP") == name {
		fmt.Fprintf(os.Stderr, "lookup %s in %s (block %v): pick=%v (%T) cell=%v best=%v depth=%d pos=%d\n", name, f.key, f.curBlock, pick.v, pick.v, pick.isCell, best != nil, bestDepth, bestPos)
	}
	if pick.isCell {
		l, ok := f.locOf(pick.v)
		if !ok {
			return Bound{}, false
		}
		return Bound{V: f.vc.load(st, l), T: l.typ}, true
	}
	return Bound{V: f.val(pick.v), T: pick.v.Type()}, true
}

func (e *Env) evalBool(x *Expr) (string, error) {
	b, err := e.eval(x)
	if err != nil {
		return "", err
	}
	if b.V.S != "Bool" {
		return "", fmt.Errorf("expression %s is not boolean (sort %s)", x, b.V.S)
	}
	return b.V.T, nil
}

func (e *Env) sortOfTypeName(name string) (string, types.Type, error) {
	switch name {
	case "int", "int64", "uint64", "uint16", "uint32", "byte", "uint8", "ref", "time", "Time":
		t := e.p.lookupType(e.pkg, name)
		return "Int", t, nil
	case "string":
		return "Str", types.Typ[types.String], nil
	case "bool":
		return "Bool", types.Typ[types.Bool], nil
	case "float64", "real":
		return "Real", types.Typ[types.Float64], nil
	case "slice":
		return "Slice", nil, nil
	case "intarray":
		return "(Array Int Int)", types.NewArray(types.Typ[types.Int], 1<<40), nil
	case "iface", "any", "error":
		return "Iface", e.p.lookupType(e.pkg, "error"), nil
	}
	t := e.p.lookupType(e.pkg, name)
	if t == nil {
		return "", nil, fmt.Errorf("unknown type %q", name)
	}
	return e.vc.sortOf(t), t, nil
}

func (e *Env) eval(x *Expr) (Bound, error) {
	vc := e.vc
	switch x.Op {
	case "int":
		v, err := strconv.ParseInt(x.Name, 0, 64)
		if err != nil {
			return Bound{}, err
		}
		return Bound{V: Val{itoa(v), "Int"}, T: types.Typ[types.Int]}, nil
	case "real":
		return Bound{V: Val{x.Name, "Real"}, T: types.Typ[types.Float64]}, nil
	case "str":
		return Bound{V: Val{vc.strLit(x.Name), "Str"}, T: types.Typ[types.String]}, nil
	case "ident":
		return e.evalIdent(x.Name)
	case "sel":
		if b, ok := e.foreignGlobal(x); ok {
			return b, nil
		}
		return e.evalSel(x)
	case "index":
		return e.evalIndex(x)
	case "slice":
		return e.evalSlice(x)
	case "call":
		return e.evalCall(x)
	case "unary":
		a, err := e.eval(x.Args[0])
		if err != nil {
			return Bound{}, err
		}
		if x.Name == "!" {
			return Bound{V: Val{not(a.V.T), "Bool"}, T: types.Typ[types.Bool]}, nil
		}
		return Bound{V: Val{"(- " + a.V.T + ")", a.V.S}, T: a.T}, nil
	case "binary":
		return e.evalBinary(x)
	case "cond":
		c, err := e.evalBool(x.Args[0])
		if err != nil {
			return Bound{}, err
		}
		a, err := e.eval(x.Args[1])
		if err != nil {
			return Bound{}, err
		}
		b, err := e.eval(x.Args[2])
		if err != nil {
			return Bound{}, err
		}
		a, b = e.unifyNil(a, b)
		return Bound{V: Val{ite(c, a.V.T, b.V.T), a.V.S}, T: a.T}, nil
	case "let":
		v, err := e.eval(x.Args[0])
		if err != nil {
			return Bound{}, err
		}
		n := e.child()
		n.vars[x.Name] = v
		return n.eval(x.Args[1])
	case "forall", "exists":
		n := e.child()
		var binders []string
		var guards []string
		for _, v := range x.Vars {
			s, t, err := e.sortOfTypeName(v.Type)
			if err != nil {
				return Bound{}, err
			}
			qn := "q_" + v.Name
			binders = append(binders, fmt.Sprintf("(%s %s)", qn, s))
			n.vars[v.Name] = Bound{V: Val{qn, s}, T: t}
			if t != nil {
				if g := vc.rangeFact(t, qn); g != "true" {
					if bt, isBasic := t.Underlying().(*types.Basic); isBasic {
						switch bt.Kind() {
						case types.Int, types.Int64:
							// quantified ints are mathematical integers (no range guard)
						default:
							guards = append(guards, g)
						}
					}
				}
			}
		}
		body, err := n.evalBool(x.Args[0])
		if err != nil {
			return Bound{}, err
		}
		var t string
		if x.Op == "forall" {
			t = fmt.Sprintf("(forall (%s) %s)", strings.Join(binders, " "), implies(and(guards...), body))
		} else {
			t = fmt.Sprintf("(exists (%s) %s)", strings.Join(binders, " "), and(append(guards, body)...))
		}
		return Bound{V: Val{t, "Bool"}, T: types.Typ[types.Bool]}, nil
	}
	return Bound{}, fmt.Errorf("cannot evaluate %s", x)
}

func (e *Env) evalIdent(name string) (Bound, error) {
	if b, ok := e.vars[name]; ok {
		return b, nil
	}
	switch name {
	case "nil":
		return Bound{V: Val{"0", "Int"}, T: untypedNil}, nil
	case "true", "false":
		return Bound{V: Val{name, "Bool"}, T: types.Typ[types.Bool]}, nil
	case "result":
		if len(e.results) == 1 {
			return e.results[0], nil
		}
		if len(e.results) > 1 {
			return Bound{Tuple: e.results}, nil
		}
		// no function result in scope: a local variable called "result"
		if e.lookup != nil {
			if b, ok := e.lookup(name); ok {
				return b, nil
			}
		}
		return Bound{}, fmt.Errorf("no result here")
	}
	if e.lookup != nil {
		if b, ok := e.lookup(name); ok {
			return b, nil
		}
	}
	// zero-arity spec function
	if sf := e.p.findSpec(e.pkg, name); sf != nil && len(sf.Params) == 0 {
		return e.callSpec(sf, nil)
	}
	// package-level variable
	if pk, ok := e.p.ssaPkgs[e.pkg]; ok {
		if g, ok := pk.Members[name].(*ssa.Global); ok {
			pt := g.Type().Underlying().(*types.Pointer)
			comp := globalComp(pk.Pkg.Name(), name)
			vc := e.vc
			vc.regComp(comp, vc.sortOf(pt.Elem()))
			return Bound{V: Val{vc.get(e.state, comp), vc.sortOf(pt.Elem())}, T: pt.Elem()}, nil
		}
		if c, ok := pk.Members[name].(*ssa.NamedConst); ok {
			fr := e.f
			if fr == nil {
				fr = &Frame{vc: e.vc, p: e.p}
			}
			return Bound{V: fr.constVal(c.Value), T: c.Type()}, nil
		}
	}
	// a variable of the enclosing function that this closure does not capture: some value the closure is not known to use
	if b, ok := e.uncapturedParentLocal(name); ok {
		return b, nil
	}
	return Bound{}, fmt.Errorf("unknown identifier %q", name)
}

func findField(t types.Type, name string) (path []int, ft types.Type, ok bool) {
	st, isS := t.Underlying().(*types.Struct)
	if !isS {
		return nil, nil, false
	}
	for i := 0; i < st.NumFields(); i++ {
		if st.Field(i).Name() == name {
			return []int{i}, st.Field(i).Type(), true
		}
	}
	// embedded by value
	for i := 0; i < st.NumFields(); i++ {
		f := st.Field(i)
		if f.Embedded() && isStruct(f.Type()) {
			if p, ft, ok := findField(f.Type(), name); ok {
				return append([]int{i}, p...), ft, true
			}
		}
	}
	return nil, nil, false
}

func (e *Env) evalSel(x *Expr) (Bound, error) {
	vc := e.vc
	// package-qualified constant or variable (pkg.Name)
	if x.Args[0].Op == "ident" {
		if _, isVar := e.vars[x.Args[0].Name]; !isVar {
			if pk, ok := e.p.ssaPkgs[x.Args[0].Name]; ok {
				if c, ok := pk.Members[x.Name].(*ssa.NamedConst); ok {
					fr := &Frame{vc: e.vc, p: e.p}
					return Bound{V: fr.constVal(c.Value), T: c.Type()}, nil
				}
			}
		}
	}
	base, err := e.eval(x.Args[0])
	if err != nil {
		return Bound{}, err
	}
	if base.Tuple != nil {
		i, err := strconv.Atoi(x.Name)
		if err != nil || i >= len(base.Tuple) {
			return Bound{}, fmt.Errorf("bad tuple index %s", x.Name)
		}
		return base.Tuple[i], nil
	}
	if base.T == nil {
		return Bound{}, fmt.Errorf("selector %s on untyped value", x.Name)
	}
	if pt, ok := base.T.Underlying().(*types.Pointer); ok {
		path, ft, ok := findField(pt.Elem(), x.Name)
		if !ok {
			return Bound{}, fmt.Errorf("type %s has no field %s", pt.Elem(), x.Name)
		}
		l := Loc{kind: "field", base: base.V.T, structT: pt.Elem(), path: path, typ: ft}
		return Bound{V: vc.load(e.state, l), T: ft}, nil
	}
	if isStruct(base.T) {
		path, ft, ok := findField(base.T, x.Name)
		if !ok {
			return Bound{}, fmt.Errorf("type %s has no field %s", base.T, x.Name)
		}
		v, t := base.V, base.T
		for _, i := range path {
			v = vc.structField(v, t, i)
			t = t.Underlying().(*types.Struct).Field(i).Type()
		}
		return Bound{V: v, T: ft}, nil
	}
	return Bound{}, fmt.Errorf("selector .%s on %s", x.Name, base.T)
}

func (e *Env) evalIndex(x *Expr) (Bound, error) {
	vc := e.vc
	base, err := e.eval(x.Args[0])
	if err != nil {
		return Bound{}, err
	}
	idx, err := e.eval(x.Args[1])
	if err != nil {
		return Bound{}, err
	}
	if base.T == nil {
		return Bound{}, fmt.Errorf("index on untyped value %s", x.Args[0])
	}
	switch t := base.T.Underlying().(type) {
	case *types.Slice:
		comp := vc.regMem(t.Elem())
		return Bound{V: Val{sel(sel(vc.get(e.state, comp), "(s-ref "+base.V.T+")"), "(sidx (s-off "+base.V.T+") "+idx.V.T+")"), vc.sortOf(t.Elem())}, T: t.Elem()}, nil
	case *types.Map:
		has, val := vc.regMap(t)
		present := and(not(eq(base.V.T, "0")), sel(sel(vc.get(e.state, has), base.V.T), idx.V.T))
		return Bound{V: Val{ite(present, sel(sel(vc.get(e.state, val), base.V.T), idx.V.T), vc.zero(t.Elem()).T), vc.sortOf(t.Elem())}, T: t.Elem()}, nil
	case *types.Basic:
		return Bound{V: Val{"(sat " + base.V.T + " " + idx.V.T + ")", "Int"}, T: types.Typ[types.Uint8]}, nil
	case *types.Array:
		return Bound{V: Val{sel(base.V.T, idx.V.T), vc.sortOf(t.Elem())}, T: t.Elem()}, nil
	case *types.Pointer:
		if arr, ok := t.Elem().Underlying().(*types.Array); ok {
			comp := vc.regMem(arr.Elem())
			return Bound{V: Val{sel(sel(vc.get(e.state, comp), base.V.T), idx.V.T), vc.sortOf(arr.Elem())}, T: arr.Elem()}, nil
		}
	}
	return Bound{}, fmt.Errorf("cannot index %s", base.T)
}

func (e *Env) evalSlice(x *Expr) (Bound, error) {
	base, err := e.eval(x.Args[0])
	if err != nil {
		return Bound{}, err
	}
	var lo, hi string
	if x.Args[1] != nil {
		b, err := e.eval(x.Args[1])
		if err != nil {
			return Bound{}, err
		}
		lo = b.V.T
	} else {
		lo = "0"
	}
	switch base.V.S {
	case "Slice":
		if x.Args[2] != nil {
			b, err := e.eval(x.Args[2])
			if err != nil {
				return Bound{}, err
			}
			hi = b.V.T
		} else {
			hi = "(s-len " + base.V.T + ")"
		}
		return Bound{V: Val{fmt.Sprintf("(mk-slice (s-ref %s) (+ (s-off %s) %s) (- %s %s) (- (s-cap %s) %s))", base.V.T, base.V.T, lo, hi, lo, base.V.T, lo), "Slice"}, T: base.T}, nil
	case "Str":
		if x.Args[2] != nil {
			b, err := e.eval(x.Args[2])
			if err != nil {
				return Bound{}, err
			}
			hi = b.V.T
		} else {
			hi = "(slen " + base.V.T + ")"
		}
		return Bound{V: Val{fmt.Sprintf("(ssub %s %s %s)", base.V.T, lo, hi), "Str"}, T: base.T}, nil
	}
	return Bound{}, fmt.Errorf("cannot slice %s", base.V.S)
}

func (e *Env) unifyNil(a, b Bound) (Bound, Bound) {
	fix := func(n Bound, other Bound) Bound {
		if n.T == untypedNil {
			switch other.V.S {
			case "Iface":
				return Bound{V: Val{"inil", "Iface"}, T: other.T}
			case "Slice":
				return Bound{V: Val{"nil-slice", "Slice"}, T: other.T}
			}
		}
		return n
	}
	return fix(a, b), fix(b, a)
}

func (e *Env) evalBinary(x *Expr) (Bound, error) {
	boolT := types.Typ[types.Bool]
	switch x.Name {
	case "==>", "&&", "||", "<==>":
		a, err := e.evalBool(x.Args[0])
		if err != nil {
			return Bound{}, err
		}
		b, err := e.evalBool(x.Args[1])
		if err != nil {
			return Bound{}, err
		}
		var t string
		switch x.Name {
		case "==>":
			t = implies(a, b)
		case "&&":
			t = and(a, b)
		case "||":
			t = or(a, b)
		default:
			t = "(= " + a + " " + b + ")"
		}
		return Bound{V: Val{t, "Bool"}, T: boolT}, nil
	case "in":
		k, err := e.eval(x.Args[0])
		if err != nil {
			return Bound{}, err
		}
		m, err := e.eval(x.Args[1])
		if err != nil {
			return Bound{}, err
		}
		mt, ok := m.T.Underlying().(*types.Map)
		if !ok {
			return Bound{}, fmt.Errorf("'in' needs a map, got %s", m.T)
		}
		has, _ := e.vc.regMap(mt)
		return Bound{V: Val{and(not(eq(m.V.T, "0")), sel(sel(e.vc.get(e.state, has), m.V.T), k.V.T)), "Bool"}, T: boolT}, nil
	}
	a, err := e.eval(x.Args[0])
	if err != nil {
		return Bound{}, err
	}
	b, err := e.eval(x.Args[1])
	if err != nil {
		return Bound{}, err
	}
	switch x.Name {
	case "==", "!=":
		var t string
		if a.T == untypedNil || b.T == untypedNil {
			other := a
			if a.T == untypedNil {
				other = b
			}
			switch other.V.S {
			case "Slice":
				t = "(= (s-ref " + other.V.T + ") 0)"
			case "Iface":
				t = "(= " + other.V.T + " inil)"
			default:
				t = "(= " + other.V.T + " 0)"
			}
		} else {
			if a.V.S != b.V.S {
				if (a.V.S == "Real" && b.V.S == "Int") || (a.V.S == "Int" && b.V.S == "Real") {
					t = eq(toReal(a.V), toReal(b.V))
				} else {
					return Bound{}, fmt.Errorf("comparison of %s and %s in %s", a.V.S, b.V.S, x)
				}
			} else {
				t = eq(a.V.T, b.V.T)
			}
		}
		if x.Name == "!=" {
			t = not(t)
		}
		return Bound{V: Val{t, "Bool"}, T: boolT}, nil
	case "<", "<=", ">", ">=":
		if a.V.S == "Real" || b.V.S == "Real" {
			return Bound{V: Val{app(x.Name, toReal(a.V), toReal(b.V)), "Bool"}, T: boolT}, nil
		}
		return Bound{V: Val{app(x.Name, a.V.T, b.V.T), "Bool"}, T: boolT}, nil
	case "+", "-", "*":
		if a.V.S == "Str" && x.Name == "+" {
			return Bound{V: Val{app("sconcat", a.V.T, b.V.T), "Str"}, T: a.T}, nil
		}
		if a.V.S == "Real" || b.V.S == "Real" {
			return Bound{V: Val{app(x.Name, toReal(a.V), toReal(b.V)), "Real"}, T: types.Typ[types.Float64]}, nil
		}
		return Bound{V: Val{app(x.Name, a.V.T, b.V.T), "Int"}, T: types.Typ[types.Int]}, nil
	case "/":
		return Bound{V: Val{app("div", a.V.T, b.V.T), "Int"}, T: types.Typ[types.Int]}, nil
	case "%":
		return Bound{V: Val{app("mod", a.V.T, b.V.T), "Int"}, T: types.Typ[types.Int]}, nil
	case "++":
		return Bound{V: Val{app("sconcat", a.V.T, b.V.T), "Str"}, T: a.T}, nil
	}
	return Bound{}, fmt.Errorf("operator %s not supported", x.Name)
}

func (p *Program) findSpec(pkg, name string) *SpecFunc {
	if cf, ok := p.contracts[pkg]; ok {
		if sf, ok := cf.Specs[name]; ok {
			return sf
		}
	}
	if p.libs != nil {
		if sf, ok := p.libs.Specs[name]; ok {
			return sf
		}
	}
	for _, cf := range p.contracts {
		if sf, ok := cf.Specs[name]; ok {
			return sf
		}
	}
	return nil
}

func (e *Env) callSpec(sf *SpecFunc, args []Bound) (Bound, error) {
	vc := e.vc
	if sf.Body != nil && !sf.Rec {
		// non-recursive specs are macros: the body is evaluated in the caller's state, so it may read the heap
		if len(args) != len(sf.Params) {
			return Bound{}, fmt.Errorf("spec %s: %d arguments, want %d", sf.Name, len(args), len(sf.Params))
		}
		n := e.child()
		for i, p := range sf.Params {
			n.vars[p.Name] = args[i]
		}
		return n.eval(sf.Body)
	}
	rs, rt, err := e.sortOfTypeName(sf.Ret)
	if err != nil {
		return Bound{}, fmt.Errorf("spec %s: %v", sf.Name, err)
	}
	fname := "spec_" + sf.Name
	if !vc.declared[fname] {
		vc.declared[fname] = true
		var ps, psorts []string
		n := &Env{vc: vc, p: e.p, pkg: e.pkg, vars: map[string]Bound{}, state: newState(), old: newState()}
		for _, p := range sf.Params {
			s, t, err := e.sortOfTypeName(p.Type)
			if err != nil {
				return Bound{}, fmt.Errorf("spec %s: %v", sf.Name, err)
			}
			ps = append(ps, fmt.Sprintf("(p_%s %s)", p.Name, s))
			psorts = append(psorts, s)
			n.vars[p.Name] = Bound{V: Val{"p_" + p.Name, s}, T: t}
		}
		if sf.Body == nil {
			vc.decls = append(vc.decls, fmt.Sprintf("(declare-fun %s (%s) %s)", fname, strings.Join(psorts, " "), rs))
			vc.trust("uninterpreted spec function " + sf.Name)
		} else {
			// reserve position: body may call other specs which must be declared first
			idx := len(vc.decls)
			vc.decls = append(vc.decls, "")
			body, err := n.eval(sf.Body)
			if err != nil {
				return Bound{}, fmt.Errorf("spec %s: %v", sf.Name, err)
			}
			kw := "define-fun"
			if sf.Rec {
				kw = "define-fun-rec"
			}
			def := fmt.Sprintf("(%s %s (%s) %s %s)", kw, fname, strings.Join(ps, " "), rs, body.V.T)
			// move to the end (after dependencies)
			vc.decls = append(vc.decls[:idx], vc.decls[idx+1:]...)
			vc.decls = append(vc.decls, def)
		}
	}
	if len(args) != len(sf.Params) {
		return Bound{}, fmt.Errorf("spec %s: %d arguments, want %d", sf.Name, len(args), len(sf.Params))
	}
	var as []string
	for _, a := range args {
		as = append(as, a.V.T)
	}
	return Bound{V: Val{app(fname, as...), rs}, T: rt}, nil
}

func (e *Env) evalCall(x *Expr) (Bound, error) {
	vc := e.vc
	boolT := types.Typ[types.Bool]
	intT := types.Typ[types.Int]
	switch x.Name {
	case "old":
		n := *e
		n.state = e.old
		saved := n.lookup
		if e.f != nil {
			f := e.f
			n.lookup = func(name string) (Bound, bool) { return f.lookupLocal(name, e.old, e.loop) }
		} else {
			n.lookup = saved
		}
		return n.eval(x.Args[0])
	case "acq":
		if e.acq == nil {
			return Bound{}, fmt.Errorf("acq() used but no monitor lock was acquired")
		}
		n := *e
		n.state = e.acq
		if e.f != nil {
			f := e.f
			n.lookup = func(name string) (Bound, bool) { return f.lookupLocal(name, e.acq, e.loop) }
		}
		return n.eval(x.Args[0])
	case "blk":
		a, err := e.eval(x.Args[0])
		if err != nil {
			return Bound{}, err
		}
		j, err := e.eval(x.Args[1])
		if err != nil {
			return Bound{}, err
		}
		st, ok := a.T.Underlying().(*types.Slice)
		if !ok {
			return Bound{}, fmt.Errorf("blk() of non-slice")
		}
		comp := vc.regMem(st.Elem())
		return Bound{V: Val{sel(sel(vc.get(e.state, comp), "(s-ref "+a.V.T+")"), j.V.T), vc.sortOf(st.Elem())}, T: st.Elem()}, nil
	case "len", "cap":
		a, err := e.eval(x.Args[0])
		if err != nil {
			return Bound{}, err
		}
		switch a.V.S {
		case "Slice":
			if x.Name == "len" {
				return Bound{V: Val{"(s-len " + a.V.T + ")", "Int"}, T: intT}, nil
			}
			return Bound{V: Val{"(s-cap " + a.V.T + ")", "Int"}, T: intT}, nil
		case "Str":
			return Bound{V: Val{"(slen " + a.V.T + ")", "Int"}, T: intT}, nil
		}
		if mt, ok := a.T.Underlying().(*types.Map); ok {
			ks := vc.sortOf(mt.Key())
			fn := "mapcard_" + sanitize(ks)
			vc.declareFun(fn, []string{"(Array " + ks + " Bool)"}, "Int")
			has, _ := vc.regMap(mt)
			return Bound{V: Val{ite(eq(a.V.T, "0"), "0", app(fn, sel(vc.get(e.state, has), a.V.T))), "Int"}, T: intT}, nil
		}
		if arr, ok := a.T.Underlying().(*types.Array); ok {
			return Bound{V: Val{fmt.Sprintf("%d", arr.Len()), "Int"}, T: intT}, nil
		}
		return Bound{}, fmt.Errorf("len of %s", a.V.S)
	case "ite":
		c, err := e.evalBool(x.Args[0])
		if err != nil {
			return Bound{}, err
		}
		a, err := e.eval(x.Args[1])
		if err != nil {
			return Bound{}, err
		}
		b, err := e.eval(x.Args[2])
		if err != nil {
			return Bound{}, err
		}
		a, b = e.unifyNil(a, b)
		return Bound{V: Val{ite(c, a.V.T, b.V.T), a.V.S}, T: a.T}, nil
	case "visited":
		if e.loop == nil || e.loop.iter == nil || e.f == nil {
			return Bound{}, fmt.Errorf("visited() outside a map-range loop")
		}
		it := e.f.iters[e.loop.iter]
		if it == nil {
			return Bound{}, fmt.Errorf("visited(): iterator not initialised")
		}
		k, err := e.eval(x.Args[0])
		if err != nil {
			return Bound{}, err
		}
		return Bound{V: Val{sel(vc.get(e.state, it.visited), k.V.T), "Bool"}, T: boolT}, nil
	case "held":
		// held(x.lock) -> 0 none, 1 read, 2 write
		lk, base, err := e.lockOfExpr(x.Args[0])
		if err != nil {
			return Bound{}, err
		}
		return Bound{V: Val{sel(vc.get(e.state, lk), base), "Int"}, T: intT}, nil
	case "closed":
		a, err := e.eval(x.Args[0])
		if err != nil {
			return Bound{}, err
		}
		vc.regComp("ChanClosed", "(Array Int Bool)")
		return Bound{V: Val{sel(vc.get(e.state, "ChanClosed"), a.V.T), "Bool"}, T: boolT}, nil
	case "sent":
		a, err := e.eval(x.Args[0])
		if err != nil {
			return Bound{}, err
		}
		cnt, _ := vc.regChan(a.T)
		return Bound{V: Val{sel(vc.get(e.state, cnt), a.V.T), "Int"}, T: intT}, nil
	case "sentval":
		a, err := e.eval(x.Args[0])
		if err != nil {
			return Bound{}, err
		}
		i, err := e.eval(x.Args[1])
		if err != nil {
			return Bound{}, err
		}
		_, sv := vc.regChan(a.T)
		ct := a.T.Underlying().(*types.Chan)
		return Bound{V: Val{sel(sel(vc.get(e.state, sv), a.V.T), i.V.T), vc.sortOf(ct.Elem())}, T: ct.Elem()}, nil
	case "ownsends":
		vc.regComp("Own_SendCnt", "Int")
		return Bound{V: Val{vc.get(e.state, "Own_SendCnt"), "Int"}, T: intT}, nil
	case "ownsendchan":
		i, err := e.eval(x.Args[0])
		if err != nil {
			return Bound{}, err
		}
		vc.regComp("Own_SendChan", "(Array Int Int)")
		return Bound{V: Val{sel(vc.get(e.state, "Own_SendChan"), i.V.T), "Int"}, T: intT}, nil
	case "ownsendval":
		ch, err := e.eval(x.Args[0])
		if err != nil {
			return Bound{}, err
		}
		i, err := e.eval(x.Args[1])
		if err != nil {
			return Bound{}, err
		}
		ct, ok := ch.T.Underlying().(*types.Chan)
		if !ok {
			return Bound{}, fmt.Errorf("ownsendval needs a channel")
		}
		comp := ownSendValComp(ch.T)
		vc.regComp(comp, "(Array Int "+vc.sortOf(ct.Elem())+")")
		return Bound{V: Val{sel(vc.get(e.state, comp), i.V.T), vc.sortOf(ct.Elem())}, T: ct.Elem()}, nil
	case "block":
		a, err := e.eval(x.Args[0])
		if err != nil {
			return Bound{}, err
		}
		st, ok := a.T.Underlying().(*types.Slice)
		if !ok {
			return Bound{}, fmt.Errorf("block() of non-slice")
		}
		comp := vc.regMem(st.Elem())
		return Bound{V: Val{sel(vc.get(e.state, comp), "(s-ref "+a.V.T+")"), "(Array Int " + vc.sortOf(st.Elem()) + ")"}, T: types.NewArray(st.Elem(), 1<<40)}, nil
	case "fresh":
		a, err := e.eval(x.Args[0])
		if err != nil {
			return Bound{}, err
		}
		vc.regNext()
		t := a.V.T
		if a.V.S == "Slice" {
			t = "(s-ref " + t + ")"
		}
		return Bound{V: Val{fmt.Sprintf("(>= %s %s)", t, vc.get(e.old, "next")), "Bool"}, T: boolT}, nil
	case "allocated":
		a, err := e.eval(x.Args[0])
		if err != nil {
			return Bound{}, err
		}
		vc.regNext()
		t := a.V.T
		if a.V.S == "Slice" {
			t = "(s-ref " + t + ")"
		}
		return Bound{V: Val{fmt.Sprintf("(< %s %s)", t, vc.get(e.state, "next")), "Bool"}, T: boolT}, nil
	case "ref":
		a, err := e.eval(x.Args[0])
		if err != nil {
			return Bound{}, err
		}
		if a.V.S == "Slice" {
			return Bound{V: Val{"(s-ref " + a.V.T + ")", "Int"}, T: intT}, nil
		}
		return Bound{V: Val{a.V.T, "Int"}, T: intT}, nil
	case "off":
		a, err := e.eval(x.Args[0])
		if err != nil {
			return Bound{}, err
		}
		return Bound{V: Val{"(s-off " + a.V.T + ")", "Int"}, T: intT}, nil
	case "typeis", "unbox":
		a, err := e.eval(x.Args[0])
		if err != nil {
			return Bound{}, err
		}
		if x.Args[1].Op != "str" {
			return Bound{}, fmt.Errorf("%s needs a type name string", x.Name)
		}
		t := e.p.lookupType(e.pkg, x.Args[1].Name)
		if t == nil {
			return Bound{}, fmt.Errorf("unknown type %q", x.Args[1].Name)
		}
		tag, _, unbox := vc.typeTag(t)
		if x.Name == "typeis" {
			return Bound{V: Val{fmt.Sprintf("(= (itag %s) %d)", a.V.T, tag), "Bool"}, T: boolT}, nil
		}
		return Bound{V: Val{app(unbox, a.V.T), vc.sortOf(t)}, T: t}, nil
	case "box":
		a, err := e.eval(x.Args[0])
		if err != nil {
			return Bound{}, err
		}
		if a.T == nil {
			return Bound{}, fmt.Errorf("box of untyped value")
		}
		_, box, _ := vc.typeTag(a.T)
		return Bound{V: Val{app(box, a.V.T), "Iface"}, T: e.p.lookupType(e.pkg, "any")}, nil
	case "itag":
		a, err := e.eval(x.Args[0])
		if err != nil {
			return Bound{}, err
		}
		return Bound{V: Val{"(itag " + a.V.T + ")", "Int"}, T: intT}, nil
	case "min", "max":
		a, err := e.eval(x.Args[0])
		if err != nil {
			return Bound{}, err
		}
		b, err := e.eval(x.Args[1])
		if err != nil {
			return Bound{}, err
		}
		return Bound{V: Val{app("i"+x.Name, a.V.T, b.V.T), "Int"}, T: intT}, nil
	case "uf":
		// uf("name", "RetType", args...) : uninterpreted function application (same symbol as library models)
		if len(x.Args) < 2 || x.Args[0].Op != "str" || x.Args[1].Op != "str" {
			return Bound{}, fmt.Errorf("uf(name, rettype, args...)")
		}
		rs, rt, err := e.sortOfTypeName(x.Args[1].Name)
		if err != nil {
			return Bound{}, err
		}
		var as, sorts []string
		for _, a := range x.Args[2:] {
			b, err := e.eval(a)
			if err != nil {
				return Bound{}, err
			}
			as = append(as, b.V.T)
			sorts = append(sorts, b.V.S)
		}
		vc.declareFun(x.Args[0].Name, sorts, rs)
		return Bound{V: Val{app(x.Args[0].Name, as...), rs}, T: rt}, nil
	}
	if fn, ok := extCalls[x.Name]; ok {
		return fn(e, x)
	}
	// library pure functions
	if lm, ok := libPure[x.Name]; ok {
		var args []Val
		for _, a := range x.Args {
			b, err := e.eval(a)
			if err != nil {
				return Bound{}, err
			}
			args = append(args, b.V)
		}
		v := lm.apply(vc, args)
		return Bound{V: v, T: lm.goType(e.p)}, nil
	}
	if sf := e.p.findSpec(e.pkg, x.Name); sf != nil {
		var args []Bound
		for _, a := range x.Args {
			b, err := e.eval(a)
			if err != nil {
				return Bound{}, err
			}
			args = append(args, b)
		}
		return e.callSpec(sf, args)
	}
	return Bound{}, fmt.Errorf("unknown function %s", x.Name)
}

// lockOfExpr resolves "x.lockField" to the Held component and the base object term.
func (e *Env) lockOfExpr(x *Expr) (comp, base string, err error) {
	if x.Op != "sel" {
		return "", "", fmt.Errorf("lock expression must be obj.lockField")
	}
	b, err := e.eval(x.Args[0])
	if err != nil {
		return "", "", err
	}
	pt, ok := b.T.Underlying().(*types.Pointer)
	if !ok {
		return "", "", fmt.Errorf("lock owner must be a pointer")
	}
	comp = heldComp(pt.Elem(), x.Name)
	e.vc.regComp(comp, "(Array Int Int)")
	return comp, b.V.T, nil
}

func heldComp(structT types.Type, field string) string {
	return "Held_" + typeKey(structT) + "_" + sanitize(field)
}
