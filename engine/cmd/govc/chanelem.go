package main

import (
	"fmt"
	"go/token"
	"go/types"

	"golang.org/x/tools/go/ssa"
)

// Channel element invariants.  A contract file may declare
//     spec chanelem_<Type>_<field>(v <elem type>) bool := <condition>
// for a channel stored in field <field> of struct <Type>.  Every send on x.<field> must establish the condition for
// the value sent (obligation "chanelem"), every receive from x.<field> may assume it for the value received
// (evaluated in the receiver's current state, so only conditions that other code cannot invalidate are sound:
// non-nil, "not closed by anybody but the receiver", immutable fields).

func (f *Frame) chanElemSpec(ch ssa.Value) *SpecFunc {
	u, ok := ch.(*ssa.UnOp)
	if !ok || u.Op != token.MUL {
		return nil
	}
	fa, ok := u.X.(*ssa.FieldAddr)
	if !ok {
		return nil
	}
	pt, ok := fa.X.Type().Underlying().(*types.Pointer)
	if !ok {
		return nil
	}
	nt, ok := pt.Elem().(*types.Named)
	if !ok || nt.Obj().Pkg() == nil {
		return nil
	}
	return f.p.findSpec(nt.Obj().Pkg().Name(), "chanelem_"+nt.Obj().Name()+"_"+fieldName(fa))
}

func (f *Frame) chanElemCond(sf *SpecFunc, ch ssa.Value, v Val) (string, error) {
	env := f.envAt(f.cur, nil)
	ct := ch.Type().Underlying().(*types.Chan)
	b, err := env.callSpec(sf, []Bound{{V: v, T: ct.Elem()}})
	if err != nil {
		return "", err
	}
	return b.V.T, nil
}

func (f *Frame) chanElemSend(ch ssa.Value, v Val, pos token.Pos, cond string) {
	sf := f.chanElemSpec(ch)
	if sf == nil || !(f.safety || f.contract != nil) {
		return
	}
	t, err := f.chanElemCond(sf, ch, v)
	if err != nil {
		f.vc.unbound = append(f.vc.unbound, fmt.Sprintf("%s: %s: %v", f.key, sf.Name, err))
		return
	}
	lbl := f.label("chanelem", sf.Name)
	g := f.guard
	if cond != "true" {
		g = and(g, cond)
	}
	f.assertObl("chanelem", lbl, nil, g, t, f.p.posString(pos))
}

func (f *Frame) chanElemRecv(ch ssa.Value, v Val, cond string) {
	sf := f.chanElemSpec(ch)
	if sf == nil {
		return
	}
	t, err := f.chanElemCond(sf, ch, v)
	if err != nil {
		f.vc.unbound = append(f.vc.unbound, fmt.Sprintf("%s: %s: %v", f.key, sf.Name, err))
		return
	}
	g := f.guard
	if cond != "true" {
		g = and(g, cond)
	}
	f.vc.assumeG(g, t)
	f.vc.trust("channel element invariant " + sf.Name + " assumed at receive (proved at the sends that are under contract)")
}

// Channels that nobody may close.  `spec neverclosed_<Type>_<field>() bool := true` declares that the channel stored in
// that field is never closed by the code under contract (readers and writers rely on it: a send on it cannot panic).
// Every close(x.<field>) in a function under contract is an obligation that cannot be discharged; sends on such a
// channel may assume it is open.
func (f *Frame) neverClosedSpec(ch ssa.Value) (*SpecFunc, string) {
	u, ok := ch.(*ssa.UnOp)
	if !ok || u.Op != token.MUL {
		return nil, ""
	}
	fa, ok := u.X.(*ssa.FieldAddr)
	if !ok {
		return nil, ""
	}
	pt, ok := fa.X.Type().Underlying().(*types.Pointer)
	if !ok {
		return nil, ""
	}
	nt, ok := pt.Elem().(*types.Named)
	if !ok || nt.Obj().Pkg() == nil {
		return nil, ""
	}
	name := nt.Obj().Name() + "." + fieldName(fa)
	return f.p.findSpec(nt.Obj().Pkg().Name(), "neverclosed_"+nt.Obj().Name()+"_"+fieldName(fa)), name
}

func (f *Frame) neverClosedObl(ch ssa.Value, pos token.Pos) {
	sf, name := f.neverClosedSpec(ch)
	if sf == nil || !(f.safety || f.rootContract() != nil) {
		return
	}
	lbl := f.label("site", "neverclosed:"+name)
	f.assertObl("site", lbl, nil, f.guard, "false", f.p.posString(pos))
}
