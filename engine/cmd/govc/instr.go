package main

import (
	"bytes"
	"fmt"
	"go/ast"
	"go/printer"
	"go/token"
	"go/types"
	"strings"

	"golang.org/x/tools/go/ssa"
)

func writeNode(b *strings.Builder, fset *token.FileSet, n ast.Node) {
	var buf bytes.Buffer
	printer.Fprint(&buf, fset, n)
	b.WriteString(buf.String())
}

func (f *Frame) exprText(pos token.Pos, kind string) string {
	t := f.p.srcText(pos, func(n ast.Node) bool {
		switch kind {
		case "index":
			_, ok := n.(*ast.IndexExpr)
			return ok
		case "slice":
			_, ok := n.(*ast.SliceExpr)
			return ok
		case "sel":
			switch n.(type) {
			case *ast.SelectorExpr, *ast.StarExpr:
				return true
			}
			return false
		case "assert":
			_, ok := n.(*ast.TypeAssertExpr)
			return ok
		case "call":
			_, ok := n.(*ast.CallExpr)
			return ok
		case "binary":
			_, ok := n.(*ast.BinaryExpr)
			return ok
		}
		_, ok := n.(ast.Expr)
		return ok
	})
	return t
}

func (f *Frame) exec(in ssa.Instruction) {
	defer func() {
		if r := recover(); r != nil {
			panic(fmt.Sprintf("%v\n  while executing %s: %s (%T)", r, f.key, in, in))
		}
	}()
	vc := f.vc
	switch x := in.(type) {
	case *ssa.DebugRef:
	case *ssa.Phi:
		// handled in enterBlock
	case *ssa.Alloc:
		f.execAlloc(x)
	case *ssa.FieldAddr:
		base := f.val(x.X)
		if _, nested := x.X.(*ssa.FieldAddr); !nested {
			f.safe("nil", x.Pos(), orDefault(f.exprText(x.Pos(), "sel"), x.X.Name()+"."+fieldName(x)), fmt.Sprintf("(not (= %s 0))", base.T))
		}
	case *ssa.IndexAddr:
		f.execIndexAddr(x)
	case *ssa.Field:
		v := f.val(x.X)
		f.setVal(x, vc.structField(v, x.X.Type(), x.Field))
	case *ssa.Index:
		f.execIndex(x)
	case *ssa.UnOp:
		f.execUnOp(x)
	case *ssa.BinOp:
		f.setVal(x, f.binop(x.Op, x.X, x.Y, x.Type(), x.Pos()))
	case *ssa.Store:
		l, ok := f.locOf(x.Addr)
		if !ok {
			vc.abstract(fmt.Sprintf("%s: store through unsupported pointer %s", f.key, x.Addr))
			vc.havocAll(f.cur)
			return
		}
		f.nilCheckLoc(x.Addr, l, x.Pos())
		f.siteStore(x, l)
		vc.storeLoc(f.cur, l, f.val(x.Val))
	case *ssa.Convert:
		f.execConvert(x)
	case *ssa.ChangeType:
		f.setVal(x, f.val(x.X))
	case *ssa.ChangeInterface:
		f.setVal(x, f.val(x.X))
	case *ssa.MakeInterface:
		v := f.val(x.X)
		_, box, _ := vc.typeTag(x.X.Type())
		f.setVal(x, Val{app(box, v.T), "Iface"})
	case *ssa.TypeAssert:
		f.execTypeAssert(x)
	case *ssa.Extract:
		tp, ok := f.tuples[x.Tuple]
		if !ok || x.Index >= len(tp) {
			f.vals[x] = f.freshVal(x.Name(), x.Type())
			return
		}
		f.vals[x] = tp[x.Index]
	case *ssa.Lookup:
		f.execLookup(x)
	case *ssa.MapUpdate:
		m := x.Map.Type().Underlying().(*types.Map)
		has, val := vc.regMap(m)
		h := f.val(x.Map)
		f.safe("nilmap", x.Pos(), orDefault(f.exprText(x.Pos(), "index"), x.Map.Name()), fmt.Sprintf("(not (= %s 0))", h.T))
		k, v := f.val(x.Key), f.val(x.Value)
		f.siteMapUpdate(x, h, k, v)
		hs, vs := vc.get(f.cur, has), vc.get(f.cur, val)
		vc.set(f.cur, has, store(hs, h.T, store(sel(hs, h.T), k.T, "true")))
		vc.set(f.cur, val, store(vs, h.T, store(sel(vs, h.T), k.T, v.T)))
	case *ssa.MakeMap:
		m := x.Type().Underlying().(*types.Map)
		has, _ := vc.regMap(m)
		r := vc.allocRef(f.cur, x.Name(), f.guard)
		hs := vc.get(f.cur, has)
		vc.set(f.cur, has, store(hs, r, fmt.Sprintf("((as const (Array %s Bool)) false)", vc.sortOf(m.Key()))))
		f.vals[x] = Val{r, "Int"}
	case *ssa.MakeChan:
		r := vc.allocRef(f.cur, x.Name(), f.guard)
		vc.regComp("ChanClosed", "(Array Int Bool)")
		vc.set(f.cur, "ChanClosed", store(vc.get(f.cur, "ChanClosed"), r, "false"))
		f.chanInit(x.Type(), r)
		f.vals[x] = Val{r, "Int"}
	case *ssa.MakeSlice:
		st := x.Type().Underlying().(*types.Slice)
		comp := vc.regMem(st.Elem())
		l, c := f.val(x.Len), f.val(x.Cap)
		f.safe("makeslice", x.Pos(), orDefault(f.exprText(x.Pos(), "call"), x.Name()), fmt.Sprintf("(and (<= 0 %s) (<= %s %s))", l.T, l.T, c.T))
		r := vc.allocRef(f.cur, x.Name(), f.guard)
		m := vc.get(f.cur, comp)
		vc.set(f.cur, comp, store(m, r, fmt.Sprintf("((as const (Array Int %s)) %s)", vc.sortOf(st.Elem()), vc.zero(st.Elem()).T)))
		f.setVal(x, Val{fmt.Sprintf("(mk-slice %s 0 %s %s)", r, l.T, c.T), "Slice"})
	case *ssa.MakeClosure:
		f.execMakeClosure(x)
	case *ssa.Slice:
		f.execSlice(x)
	case *ssa.SliceToArrayPointer:
		vc.abstract(f.key + ": SliceToArrayPointer")
		f.vals[x] = f.freshVal(x.Name(), x.Type())
	case *ssa.Range:
		f.execRange(x)
	case *ssa.Next:
		f.execNext(x)
	case *ssa.Select:
		f.execSelect(x)
	case *ssa.Send:
		f.execSend(x.Chan, x.X, x.Pos(), "true")
	case *ssa.Call:
		f.execCall(x, &x.Call, x)
	case *ssa.Go:
		f.execGo(x)
	case *ssa.Defer:
		f.execDefer(x)
	case *ssa.RunDefers:
		f.execRunDefers()
	case *ssa.Return:
		var res []Val
		for _, r := range x.Results {
			res = append(res, f.val(r))
		}
		f.checkReturnLocks(x)
		f.rets = append(f.rets, retPoint{guard: f.guard, state: f.cur, results: res})
	case *ssa.Panic:
		if f.safety {
			txt := f.p.srcText(x.Pos(), func(n ast.Node) bool { _, ok := n.(*ast.CallExpr); return ok })
			if !strings.Contains(x.String(), "blocking select matched no case") {
				lbl := f.label("panic", orDefault(txt, "panic"))
				vc.addObl(&Obligation{Name: f.rootKey() + "#safe:" + lbl, Kind: "safe", Tags: f.safeTags(), Guard: f.guard, Cond: "false", Pos: f.p.posString(x.Pos())})
			}
		}
		// path ends
	case *ssa.If:
		c := f.val(x.Cond).T
		f.edge[[2]int{x.Block().Index, 0}] = c
		f.edge[[2]int{x.Block().Index, 1}] = not(c)
	case *ssa.Jump:
	case *ssa.MultiConvert:
		vc.abstract(f.key + ": MultiConvert")
		f.vals[x] = f.freshVal(x.Name(), x.Type())
	default:
		vc.abstract(fmt.Sprintf("%s: unsupported instruction %T", f.key, in))
		if v, ok := in.(ssa.Value); ok {
			f.vals[v] = f.freshVal(v.Name(), v.Type())
		}
		vc.havocAll(f.cur)
	}
}

func orDefault(s, d string) string {
	if s == "" {
		return d
	}
	return s
}

func fieldName(x *ssa.FieldAddr) string {
	st := x.X.Type().Underlying().(*types.Pointer).Elem().Underlying().(*types.Struct)
	return st.Field(x.Field).Name()
}

func (f *Frame) nilCheckLoc(addr ssa.Value, l Loc, pos token.Pos) {
	switch addr.(type) {
	case *ssa.FieldAddr, *ssa.IndexAddr, *ssa.Global, *ssa.Alloc:
		return // checked at address computation / never nil
	}
	if l.kind == "global" {
		return
	}
	f.safe("nil", pos, orDefault(f.exprText(pos, "sel"), "*"+addr.Name()), fmt.Sprintf("(not (= %s 0))", l.base))
}

func (f *Frame) execAlloc(x *ssa.Alloc) {
	vc := f.vc
	el := x.Type().Underlying().(*types.Pointer).Elem()
	r := vc.allocRef(f.cur, orDefault(x.Comment, x.Name()), f.guard)
	f.vals[x] = Val{r, "Int"}
	f.notePrivate(x, r)
	if el.String() == "bytes.Buffer" {
		vc.regBuf()
		vc.set(f.cur, "BufLen", store(vc.get(f.cur, "BufLen"), r, "0"))
		return
	}
	switch {
	case isStruct(el):
		for _, l := range structLeaves(el, nil) {
			name, ft := vc.regField(el, l.path)
			vc.set(f.cur, name, store(vc.get(f.cur, name), r, vc.zero(ft).T))
		}
	default:
		if arr, ok := el.Underlying().(*types.Array); ok {
			comp := vc.regMem(arr.Elem())
			vc.set(f.cur, comp, store(vc.get(f.cur, comp), r, fmt.Sprintf("((as const (Array Int %s)) %s)", vc.sortOf(arr.Elem()), vc.zero(arr.Elem()).T)))
			return
		}
		comp := vc.regCell(el)
		vc.set(f.cur, comp, store(vc.get(f.cur, comp), r, vc.zero(el).T))
	}
}

func (f *Frame) execIndexAddr(x *ssa.IndexAddr) {
	i := f.val(x.Index)
	txt := orDefault(f.exprText(x.Pos(), "index"), x.X.Name()+"["+x.Index.Name()+"]")
	switch xt := x.X.Type().Underlying().(type) {
	case *types.Slice:
		s := f.val(x.X)
		f.safe("index", x.Pos(), txt, fmt.Sprintf("(and (<= 0 %s) (< %s (s-len %s)))", i.T, i.T, s.T))
	case *types.Pointer:
		if arr, ok := xt.Elem().Underlying().(*types.Array); ok {
			f.safe("index", x.Pos(), txt, fmt.Sprintf("(and (<= 0 %s) (< %s %d))", i.T, i.T, arr.Len()))
		}
	}
}

func (f *Frame) execIndex(x *ssa.Index) {
	vc := f.vc
	v, i := f.val(x.X), f.val(x.Index)
	txt := orDefault(f.exprText(x.Pos(), "index"), x.X.Name()+"["+x.Index.Name()+"]")
	switch xt := x.X.Type().Underlying().(type) {
	case *types.Basic: // string
		f.safe("index", x.Pos(), txt, fmt.Sprintf("(and (<= 0 %s) (< %s (slen %s)))", i.T, i.T, v.T))
		f.setVal(x, Val{fmt.Sprintf("(sat %s %s)", v.T, i.T), "Int"})
	case *types.Array:
		f.safe("index", x.Pos(), txt, fmt.Sprintf("(and (<= 0 %s) (< %s %d))", i.T, i.T, xt.Len()))
		f.setVal(x, Val{sel(v.T, i.T), vc.sortOf(xt.Elem())})
	default:
		vc.abstract(f.key + ": Index on " + x.X.Type().String())
		f.vals[x] = f.freshVal(x.Name(), x.Type())
	}
}

func (f *Frame) execUnOp(x *ssa.UnOp) {
	vc := f.vc
	switch x.Op {
	case token.MUL: // load
		l, ok := f.locOf(x.X)
		if !ok {
			vc.abstract(fmt.Sprintf("%s: load through unsupported pointer %s", f.key, x.X))
			f.vals[x] = f.freshVal(x.Name(), x.Type())
			return
		}
		f.nilCheckLoc(x.X, l, x.Pos())
		f.checkProtectedRead(x, l)
		v := vc.load(f.cur, l)
		f.setVal(x, v)
		// loaded references are allocated; loaded scalars are in range
		vc.assume(vc.allocatedFact(f.cur, x.Type(), f.vals[x].T))
		if l.kind != "struct" {
			vc.assume(vc.rangeFact(x.Type(), f.vals[x].T))
		}
	case token.NOT:
		f.setVal(x, Val{not(f.val(x.X).T), "Bool"})
	case token.SUB:
		v := f.val(x.X)
		if v.S == "Real" {
			f.setVal(x, Val{"(- " + v.T + ")", "Real"})
		} else {
			f.setVal(x, Val{f.wrap(x.Type(), "(- "+v.T+")"), "Int"})
		}
	case token.XOR:
		v := f.val(x.X)
		if b, ok := x.Type().Underlying().(*types.Basic); ok {
			switch b.Kind() {
			case types.Uint8:
				f.setVal(x, Val{"(- 255 " + v.T + ")", "Int"})
				return
			case types.Uint16:
				f.setVal(x, Val{"(- 65535 " + v.T + ")", "Int"})
				return
			case types.Uint32:
				f.setVal(x, Val{"(- 4294967295 " + v.T + ")", "Int"})
				return
			case types.Int, types.Int64, types.Int32, types.Int16, types.Int8:
				f.setVal(x, Val{"(- (- " + v.T + ") 1)", "Int"})
				return
			}
		}
		f.vals[x] = f.freshVal(x.Name(), x.Type())
	case token.ARROW:
		f.execRecv(x)
	default:
		vc.abstract(fmt.Sprintf("%s: unop %s", f.key, x.Op))
		f.vals[x] = f.freshVal(x.Name(), x.Type())
	}
}

func (f *Frame) wrap(t types.Type, term string) string {
	if b, ok := t.Underlying().(*types.Basic); ok {
		switch b.Kind() {
		case types.Uint8:
			return "(wrap8 " + term + ")"
		case types.Uint16:
			return "(wrap16 " + term + ")"
		case types.Uint32:
			return "(wrap32 " + term + ")"
		case types.Int8:
			return "(swrap8 " + term + ")"
		case types.Int16:
			return "(swrap16 " + term + ")"
		case types.Int32:
			return "(swrap32 " + term + ")"
		}
	}
	return term
}

func isUnsigned(t types.Type) bool {
	b, ok := t.Underlying().(*types.Basic)
	return ok && b.Info()&types.IsUnsigned != 0
}

func pow2(n int64) string {
	v := int64(1)
	if n < 62 {
		return fmt.Sprintf("%d", v<<uint(n))
	}
	// big
	s := "1"
	for i := int64(0); i < n; i++ {
		s = "(* 2 " + s + ")"
	}
	return s
}

func (f *Frame) binop(op token.Token, X, Y ssa.Value, rt types.Type, pos token.Pos) Val {
	vc := f.vc
	a, b := f.val(X), f.val(Y)
	xt := X.Type()
	switch op {
	case token.EQL, token.NEQ:
		var t string
		switch xt.Underlying().(type) {
		case *types.Slice:
			// only comparison with nil is legal
			other := a
			if c, ok := X.(*ssa.Const); ok && c.Value == nil {
				other = b
			}
			t = fmt.Sprintf("(= (s-ref %s) 0)", other.T)
		default:
			// comparison of a concrete value with an interface is done after MakeInterface by ssa
			t = eq(a.T, b.T)
			if a.S == "Real" || b.S == "Real" {
				t = eq(toReal(a), toReal(b))
			}
		}
		if op == token.NEQ {
			t = not(t)
		}
		return Val{t, "Bool"}
	case token.LSS, token.LEQ, token.GTR, token.GEQ:
		o := map[token.Token]string{token.LSS: "<", token.LEQ: "<=", token.GTR: ">", token.GEQ: ">="}[op]
		if a.S == "Str" {
			vc.declareFun("strlt", []string{"Str", "Str"}, "Bool")
			switch op {
			case token.LSS:
				return Val{app("strlt", a.T, b.T), "Bool"}
			case token.GTR:
				return Val{app("strlt", b.T, a.T), "Bool"}
			case token.LEQ:
				return Val{not(app("strlt", b.T, a.T)), "Bool"}
			default:
				return Val{not(app("strlt", a.T, b.T)), "Bool"}
			}
		}
		if a.S == "Real" || b.S == "Real" {
			return Val{app(o, toReal(a), toReal(b)), "Bool"}
		}
		return Val{app(o, a.T, b.T), "Bool"}
	}
	if a.S == "Str" && op == token.ADD {
		return Val{app("sconcat", a.T, b.T), "Str"}
	}
	if a.S == "Bool" {
		switch op {
		case token.AND, token.LAND:
			return Val{and(a.T, b.T), "Bool"}
		case token.OR, token.LOR:
			return Val{or(a.T, b.T), "Bool"}
		}
	}
	if a.S == "Real" || b.S == "Real" {
		o := map[token.Token]string{token.ADD: "+", token.SUB: "-", token.MUL: "*", token.QUO: "/"}[op]
		if o == "" {
			vc.abstract(fmt.Sprintf("%s: float op %s", f.key, op))
			return f.freshVal("fop", rt)
		}
		return Val{app(o, toReal(a), toReal(b)), "Real"}
	}
	// integers
	var t string
	switch op {
	case token.ADD:
		t = app("+", a.T, b.T)
	case token.SUB:
		t = app("-", a.T, b.T)
	case token.MUL:
		t = app("*", a.T, b.T)
	case token.QUO, token.REM:
		txt := orDefault(f.exprText(pos, "binary"), X.Name()+op.String()+Y.Name())
		f.safe("divzero", pos, txt, fmt.Sprintf("(not (= %s 0))", b.T))
		vc.rawDecl("tdiv", "(define-fun tdiv ((a Int) (b Int)) Int (ite (>= a 0) (div a b) (- (div (- a) b))))")
		vc.rawDecl("tmod", "(define-fun tmod ((a Int) (b Int)) Int (- a (* b (tdiv a b))))")
		if op == token.QUO {
			t = app("tdiv", a.T, b.T)
		} else {
			t = app("tmod", a.T, b.T)
		}
	case token.SHL, token.SHR:
		if c, ok := Y.(*ssa.Const); ok && c.Value != nil {
			n := c.Int64()
			if op == token.SHL {
				t = app("*", a.T, pow2(n))
			} else {
				t = app("div", a.T, pow2(n))
			}
		} else {
			vc.declareFun("shl_int", []string{"Int", "Int"}, "Int")
			vc.declareFun("shr_int", []string{"Int", "Int"}, "Int")
			if op == token.SHL {
				t = app("shl_int", a.T, b.T)
			} else {
				t = app("shr_int", a.T, b.T)
			}
		}
	case token.AND:
		if m, ok := maskBits(Y); ok && isUnsignedOrNonNeg(X) {
			t = app("mod", a.T, pow2(m))
		} else if m, ok := maskBits(X); ok && isUnsignedOrNonNeg(Y) {
			t = app("mod", b.T, pow2(m))
		} else {
			vc.declareFun("and_int", []string{"Int", "Int"}, "Int")
			t = app("and_int", a.T, b.T)
			if isUnsigned(rt) {
				vc.assume(fmt.Sprintf("(and (<= 0 %s) (<= %s %s) (<= %s %s))", t, t, a.T, t, b.T))
			}
		}
	case token.OR:
		vc.declareFun("or_int", []string{"Int", "Int"}, "Int")
		t = app("or_int", a.T, b.T)
	case token.XOR:
		vc.declareFun("xor_int", []string{"Int", "Int"}, "Int")
		t = app("xor_int", a.T, b.T)
	case token.AND_NOT:
		vc.declareFun("andnot_int", []string{"Int", "Int"}, "Int")
		t = app("andnot_int", a.T, b.T)
	default:
		vc.abstract(fmt.Sprintf("%s: binop %s", f.key, op))
		return f.freshVal("bop", rt)
	}
	return Val{f.wrap(rt, t), "Int"}
}

func maskBits(v ssa.Value) (int64, bool) {
	c, ok := v.(*ssa.Const)
	if !ok || c.Value == nil {
		return 0, false
	}
	n := c.Int64()
	if n <= 0 {
		return 0, false
	}
	// n = 2^k - 1 ?
	k := int64(0)
	for m := n; m > 0; m >>= 1 {
		if m&1 == 0 {
			return 0, false
		}
		k++
	}
	return k, true
}

func isUnsignedOrNonNeg(v ssa.Value) bool { return isUnsigned(v.Type()) }

func toReal(v Val) string {
	if v.S == "Real" {
		return v.T
	}
	return "(to_real " + v.T + ")"
}

func (f *Frame) execConvert(x *ssa.Convert) {
	vc := f.vc
	v := f.val(x.X)
	from, to := x.X.Type().Underlying(), x.Type().Underlying()
	fb, fok := from.(*types.Basic)
	tb, tok := to.(*types.Basic)
	switch {
	case fok && tok && fb.Info()&types.IsInteger != 0 && tb.Info()&types.IsInteger != 0:
		f.setVal(x, Val{f.wrap(x.Type(), v.T), "Int"})
		// 64-bit conversions between signed/unsigned are treated as identity on mathematical integers
	case fok && tok && fb.Info()&types.IsInteger != 0 && tb.Info()&types.IsFloat != 0:
		f.setVal(x, Val{"(to_real " + v.T + ")", "Real"})
	case fok && tok && fb.Info()&types.IsFloat != 0 && tb.Info()&types.IsInteger != 0:
		vc.rawDecl("trunc_real", "(define-fun trunc_real ((r Real)) Int (ite (>= r 0.0) (to_int r) (- (to_int (- r)))))")
		f.setVal(x, Val{f.wrap(x.Type(), app("trunc_real", v.T)), "Int"})
	case fok && tok && fb.Info()&types.IsFloat != 0 && tb.Info()&types.IsFloat != 0:
		f.setVal(x, v)
	case fok && tok && fb.Info()&types.IsString != 0 && tb.Info()&types.IsString != 0:
		f.setVal(x, v)
	case tok && tb.Info()&types.IsString != 0:
		// string(bytes) / string(rune)
		if st, ok := from.(*types.Slice); ok {
			comp := vc.regMem(st.Elem())
			s := vc.fresh("str_of_bytes", "Str")
			m := vc.get(f.cur, comp)
			vc.assume(fmt.Sprintf("(= (slen %s) (s-len %s))", s, v.T))
			vc.assume(fmt.Sprintf("(forall ((i Int)) (! (=> (and (<= 0 i) (< i (s-len %s))) (= (sat %s i) (select (select %s (s-ref %s)) (+ (s-off %s) i)))) :pattern ((sat %s i))))", v.T, s, m, v.T, v.T, s))
			f.vals[x] = Val{s, "Str"}
			return
		}
		vc.declareFun("str_of_rune", []string{"Int"}, "Str")
		f.setVal(x, Val{app("str_of_rune", v.T), "Str"})
	case fok && fb.Info()&types.IsString != 0:
		if st, ok := to.(*types.Slice); ok {
			comp := vc.regMem(st.Elem())
			r := vc.allocRef(f.cur, "bytes_of_str", f.guard)
			arr := vc.fresh("bytes_arr", "(Array Int "+vc.sortOf(st.Elem())+")")
			vc.assume(fmt.Sprintf("(forall ((i Int)) (! (=> (and (<= 0 i) (< i (slen %s))) (= (select %s i) (sat %s i))) :pattern ((select %s i))))", v.T, arr, v.T, arr))
			vc.set(f.cur, comp, store(vc.get(f.cur, comp), r, arr))
			f.setVal(x, Val{fmt.Sprintf("(mk-slice %s 0 (slen %s) (slen %s))", r, v.T, v.T), "Slice"})
			return
		}
		f.vals[x] = f.freshVal(x.Name(), x.Type())
	default:
		if vc.sortOf(x.X.Type()) == vc.sortOf(x.Type()) {
			f.setVal(x, v)
			return
		}
		vc.abstract(fmt.Sprintf("%s: convert %s -> %s", f.key, x.X.Type(), x.Type()))
		f.vals[x] = f.freshVal(x.Name(), x.Type())
	}
}

func (f *Frame) execTypeAssert(x *ssa.TypeAssert) {
	vc := f.vc
	v := f.val(x.X)
	if _, isIface := x.AssertedType.Underlying().(*types.Interface); isIface {
		// interface-to-interface assertion: result is the same value; ok is unknown (non-nil required)
		if x.CommaOk {
			ok := vc.fresh("ok_"+x.Name(), "Bool")
			vc.assume(implies(ok, not(eq(v.T, "inil"))))
			f.tuples[x] = []Val{{ite(ok, v.T, "inil"), "Iface"}, {ok, "Bool"}}
			return
		}
		txt := orDefault(f.exprText(x.Pos(), "assert"), x.X.Name()+".(iface)")
		okc := vc.fresh("implements_"+x.Name(), "Bool")
		f.safe("assert", x.Pos(), txt, and(not(eq(v.T, "inil")), okc))
		f.setVal(x, v)
		return
	}
	tag, _, unbox := vc.typeTag(x.AssertedType)
	is := fmt.Sprintf("(= (itag %s) %d)", v.T, tag)
	s := vc.sortOf(x.AssertedType)
	if x.CommaOk {
		okv := vc.define("ok_"+x.Name(), Val{is, "Bool"})
		val := vc.define(x.Name()+"_v", Val{ite(okv.T, app(unbox, v.T), vc.zero(x.AssertedType).T), s})
		f.tuples[x] = []Val{val, okv}
		return
	}
	txt := orDefault(f.exprText(x.Pos(), "assert"), x.X.Name()+".("+x.AssertedType.String()+")")
	f.safe("assert", x.Pos(), txt, is)
	f.setVal(x, Val{app(unbox, v.T), s})
}

func (f *Frame) execLookup(x *ssa.Lookup) {
	vc := f.vc
	switch xt := x.X.Type().Underlying().(type) {
	case *types.Map:
		has, val := vc.regMap(xt)
		h, k := f.val(x.X), f.val(x.Index)
		f.checkProtectedMapRead(x, h)
		hasT := sel(sel(vc.get(f.cur, has), h.T), k.T)
		present := vc.define("has_"+x.Name(), Val{and(not(eq(h.T, "0")), hasT), "Bool"})
		vs := vc.sortOf(xt.Elem())
		v := vc.define(x.Name()+"_v", Val{ite(present.T, sel(sel(vc.get(f.cur, val), h.T), k.T), vc.zero(xt.Elem()).T), vs})
		vc.assume(vc.allocatedFact(f.cur, xt.Elem(), v.T))
		vc.assume(vc.rangeFact(xt.Elem(), v.T))
		if x.CommaOk {
			f.tuples[x] = []Val{v, present}
		} else {
			f.vals[x] = v
		}
	default: // string index (handled by Index normally)
		v, i := f.val(x.X), f.val(x.Index)
		txt := orDefault(f.exprText(x.Pos(), "index"), x.X.Name()+"["+x.Index.Name()+"]")
		f.safe("index", x.Pos(), txt, fmt.Sprintf("(and (<= 0 %s) (< %s (slen %s)))", i.T, i.T, v.T))
		f.setVal(x, Val{fmt.Sprintf("(sat %s %s)", v.T, i.T), "Int"})
	}
}

func (f *Frame) execSlice(x *ssa.Slice) {
	vc := f.vc
	v := f.val(x.X)
	txt := orDefault(f.exprText(x.Pos(), "slice"), x.X.Name()+"[:]")
	opt := func(y ssa.Value, d string) string {
		if y == nil {
			return d
		}
		return f.val(y).T
	}
	switch xt := x.X.Type().Underlying().(type) {
	case *types.Slice:
		lo := opt(x.Low, "0")
		hi := opt(x.High, "(s-len "+v.T+")")
		mx := opt(x.Max, "(s-cap "+v.T+")")
		f.safe("slice", x.Pos(), txt, fmt.Sprintf("(and (<= 0 %s) (<= %s %s) (<= %s %s) (<= %s (s-cap %s)))", lo, lo, hi, hi, mx, mx, v.T))
		// slicing a nil slice [0:0] stays nil
		f.setVal(x, Val{fmt.Sprintf("(mk-slice (s-ref %s) (+ (s-off %s) %s) (- %s %s) (- %s %s))", v.T, v.T, lo, hi, lo, mx, lo), "Slice"})
	case *types.Basic: // string
		lo := opt(x.Low, "0")
		hi := opt(x.High, "(slen "+v.T+")")
		f.safe("slice", x.Pos(), txt, fmt.Sprintf("(and (<= 0 %s) (<= %s %s) (<= %s (slen %s)))", lo, lo, hi, hi, v.T))
		f.setVal(x, Val{fmt.Sprintf("(ssub %s %s %s)", v.T, lo, hi), "Str"})
	case *types.Pointer: // *[N]T
		arr := xt.Elem().Underlying().(*types.Array)
		n := fmt.Sprintf("%d", arr.Len())
		lo := opt(x.Low, "0")
		hi := opt(x.High, n)
		mx := opt(x.Max, n)
		f.safe("slice", x.Pos(), txt, fmt.Sprintf("(and (<= 0 %s) (<= %s %s) (<= %s %s) (<= %s %s))", lo, lo, hi, hi, mx, mx, n))
		if _, isFA := x.X.(*ssa.FieldAddr); isFA {
			vc.abstract(f.key + ": slice of array field")
			f.vals[x] = f.freshVal(x.Name(), x.Type())
			return
		}
		vc.regMem(arr.Elem())
		f.setVal(x, Val{fmt.Sprintf("(mk-slice %s %s (- %s %s) (- %s %s))", v.T, lo, hi, lo, mx, lo), "Slice"})
	default:
		vc.abstract(f.key + ": slice of " + x.X.Type().String())
		f.vals[x] = f.freshVal(x.Name(), x.Type())
	}
}

func (f *Frame) execRange(x *ssa.Range) {
	vc := f.vc
	m, ok := x.X.Type().Underlying().(*types.Map)
	if !ok {
		vc.abstract(f.key + ": range over " + x.X.Type().String())
		return
	}
	vc.regMap(m)
	comp := fmt.Sprintf("Visited_%s_%s", sanitize(f.key), x.Name())
	vc.regComp(comp, "(Array "+vc.sortOf(m.Key())+" Bool)")
	vc.set(f.cur, comp, fmt.Sprintf("((as const (Array %s Bool)) false)", vc.sortOf(m.Key())))
	f.iters[x] = &iterInfo{rng: x, mapT: m, mapV: f.val(x.X), visited: comp}
	f.vals[x] = Val{"0", "Int"}
}

func (f *Frame) execNext(x *ssa.Next) {
	vc := f.vc
	it := f.iters[x.Iter]
	if it == nil {
		// string iteration or unknown
		vc.abstract(f.key + ": next on unsupported iterator")
		tt := x.Type().(*types.Tuple)
		var vs []Val
		for i := 0; i < tt.Len(); i++ {
			vs = append(vs, f.freshVal(fmt.Sprintf("%s_%d", x.Name(), i), tt.At(i).Type()))
		}
		f.tuples[x] = vs
		return
	}
	has, val := vc.regMap(it.mapT)
	ks, vs := vc.sortOf(it.mapT.Key()), vc.sortOf(it.mapT.Elem())
	okv := vc.fresh("ok_"+x.Name(), "Bool")
	k := vc.fresh("k_"+x.Name(), ks)
	v := vc.fresh("v_"+x.Name(), vs)
	h := it.mapV.T
	hasArr := sel(vc.get(f.cur, has), h)
	valArr := sel(vc.get(f.cur, val), h)
	vis := vc.get(f.cur, it.visited)
	vc.assumeG(f.guard, implies(okv, and(not(eq(h, "0")), sel(hasArr, k), not(sel(vis, k)), eq(v, sel(valArr, k)))))
	vc.assumeG(f.guard, implies(not(okv), fmt.Sprintf("(forall ((kk %s)) (! (=> (and (not (= %s 0)) (select %s kk)) (select %s kk)) :pattern ((select %s kk))))", ks, h, hasArr, vis, vis)))
	vc.assume(vc.rangeFact(it.mapT.Key(), k))
	vc.assume(vc.rangeFact(it.mapT.Elem(), v))
	vc.assume(vc.allocatedFact(f.cur, it.mapT.Elem(), v))
	vc.set(f.cur, it.visited, ite(okv, store(vis, k, "true"), vis))
	f.tuples[x] = []Val{{okv, "Bool"}, {k, ks}, {v, vs}}
}

// instrWrites returns the components an instruction may write (syntactic), or all=true.
func (f *Frame) instrWrites(in ssa.Instruction) ([]string, bool) {
	vc := f.vc
	switch x := in.(type) {
	case *ssa.Store:
		return f.addrComps(x.Addr)
	case *ssa.MapUpdate:
		m := x.Map.Type().Underlying().(*types.Map)
		has, val := vc.regMap(m)
		return []string{has, val}, false
	case *ssa.Alloc:
		el := x.Type().Underlying().(*types.Pointer).Elem()
		out := []string{"next"}
		if el.String() == "bytes.Buffer" {
			vc.regBuf()
			return []string{"next", "BufLen"}, false
		}
		if isStruct(el) {
			for _, l := range structLeaves(el, nil) {
				n, _ := vc.regField(el, l.path)
				out = append(out, n)
			}
		} else if arr, ok := el.Underlying().(*types.Array); ok {
			out = append(out, vc.regMem(arr.Elem()))
		} else {
			out = append(out, vc.regCell(el))
		}
		return out, false
	case *ssa.MakeMap:
		has, val := vc.regMap(x.Type().Underlying().(*types.Map))
		return []string{"next", has, val}, false
	case *ssa.MakeSlice:
		return []string{"next", vc.regMem(x.Type().Underlying().(*types.Slice).Elem())}, false
	case *ssa.MakeChan:
		vc.regComp("ChanClosed", "(Array Int Bool)")
		cn, cv := vc.regChan(x.Type())
		return []string{"next", "ChanClosed", cn, cv}, false
	case *ssa.MakeClosure:
		return []string{"next"}, false
	case *ssa.Convert:
		if st, ok := x.Type().Underlying().(*types.Slice); ok {
			return []string{"next", vc.regMem(st.Elem())}, false
		}
	case *ssa.Range:
		if _, ok := x.X.Type().Underlying().(*types.Map); ok {
			comp := fmt.Sprintf("Visited_%s_%s", sanitize(f.key), x.Name())
			return []string{comp}, false
		}
	case *ssa.Next:
		if r, ok := x.Iter.(*ssa.Range); ok {
			if m, ok := r.X.Type().Underlying().(*types.Map); ok {
				comp := fmt.Sprintf("Visited_%s_%s", sanitize(f.key), r.Name())
				vc.regComp(comp, "(Array "+vc.sortOf(m.Key())+" Bool)")
				return []string{comp}, false
			}
		}
	case *ssa.Send:
		return f.chanComps(x.Chan.Type()), false
	case *ssa.Select:
		var out []string
		for _, st := range x.States {
			if st.Dir == types.SendOnly {
				out = append(out, f.chanComps(st.Chan.Type())...)
			}
		}
		return out, false
	case *ssa.Call:
		return f.callWrites(&x.Call)
	case *ssa.Defer:
		return f.callWrites(&x.Call)
	case *ssa.Go:
		return f.goWrites(x)
	case *ssa.RunDefers:
		var out []string
		all := false
		for _, b := range f.fn.Blocks {
			for _, i2 := range b.Instrs {
				if d, ok := i2.(*ssa.Defer); ok {
					cs, a := f.callWrites(&d.Call)
					out = append(out, cs...)
					all = all || a
				}
			}
		}
		return out, all
	}
	return nil, false
}

func (f *Frame) addrComps(addr ssa.Value) ([]string, bool) {
	vc := f.vc
	switch a := addr.(type) {
	case *ssa.FieldAddr:
		// static path
		var path []int
		var cur ssa.Value = a
		for {
			fa, ok := cur.(*ssa.FieldAddr)
			if !ok {
				break
			}
			path = append([]int{fa.Field}, path...)
			cur = fa.X
		}
		if ia, ok := cur.(*ssa.IndexAddr); ok {
			// a field of a struct stored in a slice or array element: the element is rewritten as a whole
			return f.addrComps(ia)
		}
		pt, ok := cur.Type().Underlying().(*types.Pointer)
		if !ok || !isStruct(pt.Elem()) {
			return nil, true
		}
		_, ft := fieldComp(pt.Elem(), path)
		if isStruct(ft) {
			var out []string
			for _, l := range structLeaves(ft, nil) {
				n, _ := vc.regField(pt.Elem(), append(append([]int{}, path...), l.path...))
				out = append(out, n)
			}
			return out, false
		}
		n, _ := vc.regField(pt.Elem(), path)
		return []string{n}, false
	case *ssa.IndexAddr:
		switch xt := a.X.Type().Underlying().(type) {
		case *types.Slice:
			return []string{vc.regMem(xt.Elem())}, false
		case *types.Pointer:
			if arr, ok := xt.Elem().Underlying().(*types.Array); ok {
				return []string{vc.regMem(arr.Elem())}, false
			}
		}
		return nil, true
	case *ssa.Global:
		pt := a.Type().Underlying().(*types.Pointer)
		comp := globalComp(a.Pkg.Pkg.Name(), a.Name())
		vc.regComp(comp, vc.sortOf(pt.Elem()))
		return []string{comp}, false
	}
	pt, ok := addr.Type().Underlying().(*types.Pointer)
	if !ok {
		return nil, true
	}
	el := pt.Elem()
	if isStruct(el) {
		var out []string
		for _, l := range structLeaves(el, nil) {
			n, _ := vc.regField(el, l.path)
			out = append(out, n)
		}
		return out, false
	}
	if arr, ok := el.Underlying().(*types.Array); ok {
		return []string{vc.regMem(arr.Elem())}, false
	}
	return []string{vc.regCell(el)}, false
}
