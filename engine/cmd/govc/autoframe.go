package main

import (
	"fmt"
	"strings"
)

// Automatic frame invariant.  For a function whose contract says `modifies nothing` (or `pure`), every loop gets the
// candidate invariant "no object that existed when the function was entered has changed" for each heap component
// the loop writes.  Like every invariant it is assumed at the loop head and proved on entry (trivially: nothing has
// been written to old objects yet - this is the frame obligation's own induction hypothesis) and on every back
// edge.  It lets frame obligations go through loops that only write objects allocated by the function itself.

func (f *Frame) framePure() bool {
	r := f.root()
	if r != f || r.contract == nil {
		return false
	}
	if r.contract.Pure {
		return true
	}
	if !r.contract.HasModifies {
		return false
	}
	for _, m := range r.contract.Modifies {
		for _, item := range splitTop(m.Text, ',') {
			if it := strings.TrimSpace(item); it != "" && it != "nothing" {
				return false
			}
		}
	}
	return true
}

func (f *Frame) autoFrameFormula(st *State, comp string) string {
	entry := f.root().entry
	if entry == nil {
		return "true"
	}
	ci, ok := f.vc.comps[comp]
	if !ok || !strings.HasPrefix(ci.sort, "(Array Int ") || isActivationLocal(comp) || comp == "next" {
		return "true"
	}
	cur, old := f.vc.get(st, comp), f.vc.get(entry, comp)
	if cur == old {
		return "true"
	}
	next0 := f.vc.get(entry, "next")
	return fmt.Sprintf("(forall ((r Int)) (! (=> (and (<= 0 r) (< r %s)) (= (select %s r) (select %s r))) :pattern ((select %s r))))", next0, cur, old, cur)
}

func (f *Frame) autoFrameAssume(li *loopInfo, comps []string) {
	if !f.framePure() {
		return
	}
	li.frameComps = nil
	for _, c := range comps {
		t := f.autoFrameFormula(f.cur, c)
		li.frameComps = append(li.frameComps, c)
		if t != "true" {
			f.vc.assumeG(f.guard, t)
		}
	}
}

func (f *Frame) autoFrameCheck(li *loopInfo, guard string, st *State, latchName string) {
	if !f.framePure() {
		return
	}
	for _, c := range li.frameComps {
		t := f.autoFrameFormula(st, c)
		if t == "true" {
			continue
		}
		lbl := f.label("inv-preserve", li.key+":auto-frame:"+c+latchName)
		f.assertObl("inv-preserve", lbl, nil, guard, t, "")
	}
}
