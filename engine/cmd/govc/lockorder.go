package main

// Lock order.  `//@ order T.a < U.b < V.c` declares an acquisition order between lock classes (a class is a mutex
// field of a struct type).  At every acquisition of a lock of class B - a Lock/RLock in the function itself, or a
// call of a function under contract that (transitively) takes B on one of its arguments - and for every class A of
// which this activation may hold a lock at that point, the pair must be declared A < B; otherwise the obligation
// "no lock of class A is held here" is generated (for A == B: "no other lock of this class").  Two activations that
// both respect one declared order cannot wait for each other in a cycle over these classes.
//
// What this does not see: locks a callee takes on objects that are not its arguments, callees without contract, and
// functions entered with a lock held (requires held(..)), where the entry state of the other classes is unknown;
// for those the obligation is generated at the caller's call site only.

import (
	"go/token"
	"go/types"
	"sort"
	"strings"
	"sync"
)

var (
	lockOrderOnce  sync.Once
	lockOrderEdges map[string]map[string]bool
)

// orderedBefore: A < B follows from the order declarations (transitively)
func (p *Program) orderedBefore(a, b string) bool {
	lockOrderOnce.Do(func() {
		lockOrderEdges = map[string]map[string]bool{}
		add := func(cf *ContractFile) {
			if cf == nil {
				return
			}
			for _, chain := range cf.LockOrder {
				for i := 0; i+1 < len(chain); i++ {
					x, y := orderKey(chain[i]), orderKey(chain[i+1])
					if lockOrderEdges[x] == nil {
						lockOrderEdges[x] = map[string]bool{}
					}
					lockOrderEdges[x][y] = true
				}
			}
		}
		for _, cf := range p.contracts {
			add(cf)
		}
		add(p.libs)
	})
	seen := map[string]bool{}
	var dfs func(x string) bool
	dfs = func(x string) bool {
		if seen[x] {
			return false
		}
		seen[x] = true
		for y := range lockOrderEdges[x] {
			if y == b || dfs(y) {
				return true
			}
		}
		return false
	}
	return dfs(a)
}

// orderKey: "Netceptor.connLock" -> "Netceptor_connLock" (compared with the tail of the held component's name)
func orderKey(s string) string { return sanitize(strings.TrimSpace(s)) }

func classOfHeldComp(comp string) string {
	// Held_<pkg>_<Type>_<field>: the class key is <Type>_<field>
	parts := strings.Split(strings.TrimPrefix(comp, "Held_"), "_")
	if len(parts) >= 2 {
		return strings.Join(parts[len(parts)-2:], "_")
	}
	return comp
}

func (f *Frame) lockOrderCheck(st types.Type, field, base string, pos token.Pos) {
	vc := f.vc
	if !(f.safety || f.contract != nil) || vc.locksAtEntry {
		return
	}
	bComp := heldComp(st, field)
	bClass := classOfHeldComp(bComp)
	var comps []string
	for c := range f.cur.comp {
		if strings.HasPrefix(c, "Held_") {
			comps = append(comps, c)
		}
	}
	sort.Strings(comps)
	for _, c := range comps {
		aClass := classOfHeldComp(c)
		if f.p.orderedBefore(aClass, bClass) {
			continue
		}
		h := vc.get(f.cur, c)
		var goal string
		if c == bComp {
			goal = "(forall ((lo_r Int)) (=> (not (= lo_r " + base + ")) (= (select " + h + " lo_r) 0)))"
		} else {
			goal = "(forall ((lo_r Int)) (= (select " + h + " lo_r) 0))"
		}
		lbl := f.label("lockorder", aClass+"-free-when-taking-"+bClass)
		f.assertObl("lock", lbl, nil, f.guard, goal, f.p.posString(pos))
	}
}
