#!/usr/bin/env python3
"""prints the ids of the checks whose ledgers contain a function touched by the patch (by the name of the enclosing
function in the hunk headers and by added/removed `func` lines)"""
import sys, re, json, glob
names = set()
for l in open(sys.argv[1]):
    m = re.match(r'^@@.*@@\s*func\s*(\([^)]*\)\s*)?(\w+)', l)
    if m: names.add(m.group(2))
    m = re.match(r'^[-+ ]func\s*(\([^)]*\)\s*)?(\w+)', l)
    if m: names.add(m.group(2))
# the hunk header shows whatever line git's heuristic picked (a label, for instance): also find the enclosing function
# of every hunk by line number in /repo's file
cur = None
for l in open(sys.argv[1]):
    m = re.match(r'^--- a/(\S+)', l)
    if m: cur = m.group(1); continue
    m = re.match(r'^@@ -(\d+)(?:,(\d+))? ', l)
    if m and cur and cur.endswith('.go'):
        try: lines = open('/repo/' + cur).read().splitlines()
        except OSError: continue
        start, n = int(m.group(1)), int(m.group(2) or 1)
        for i in range(min(start + n, len(lines)) - 1, -1, -1):
            fm = re.match(r'^func\s*(\([^)]*\)\s*)?(\w+)', lines[i])
            if fm:
                if i + 1 <= start + n: names.add(fm.group(2))
                if i + 1 <= start: break
ids = []
for f in sorted(glob.glob('/verif/ledger/C*.json')):
    fs = json.load(open(f)).get('functions', {})
    hit = False
    for k in fs:
        base = re.sub(r'\$\d+', '', k).split('.')[-1]
        if base in names: hit = True
    if hit: ids.append(f.split('/')[-1][:-5])
print(' '.join(ids))
