#!/usr/bin/env python3
"""prints the ids of the checks whose ledgers contain a function touched by the patch (by the name of the enclosing
function in the hunk headers and by added/removed `func` lines)"""
import sys, re, json, glob
names = set()
for l in open(sys.argv[1]):
    m = re.match(r'^@@.*@@\s*func\s*(\([^)]*\)\s*)?(\w+)', l)
    if m: names.add(m.group(2))
    m = re.match(r'^[-+ ]func\s*(\([^)]*\)\s*)?(\w+)', l)
    if m: names.add(m.group(2))
ids = []
for f in sorted(glob.glob('/verif/ledger/C*.json')):
    fs = json.load(open(f)).get('functions', {})
    hit = False
    for k in fs:
        base = re.sub(r'\$\d+', '', k).split('.')[-1]
        if base in names: hit = True
    if hit: ids.append(f.split('/')[-1][:-5])
print(' '.join(ids))
