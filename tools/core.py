#!/usr/bin/env python3
"""usage: core.py file.smt2 -- replaces the obligation by its guard only and prints an unsat core of the assumptions
(debugging aid for VACUITY reports: shows which assumptions contradict each other)."""
import sys, re, subprocess, tempfile
src = open(sys.argv[1]).read().split('\n')
out = ['(set-option :produce-unsat-cores true)']
n = 0
names = {}
for l in src:
    if l.startswith('(assert (not (=> ') and 'obligation' in out[-1]:
        # keep only the guard: parse first balanced term after "(=> "
        s = l[len('(assert (not (=> '):]
        if s[0] == '(':
            d = 0
            for i, ch in enumerate(s):
                if ch == '(': d += 1
                if ch == ')':
                    d -= 1
                    if d == 0: break
            g = s[:i+1]
        else:
            g = s.split(' ')[0]
        out.append('(assert (! %s :named GUARD))' % g)
        continue
    if l.startswith('(assert '):
        n += 1
        nm = 'a%d' % n
        names[nm] = l
        out.append('(assert (! %s :named %s))' % (l[len('(assert '):-1], nm))
    elif l.startswith('(check-sat'):
        out.append('(check-sat)\n(get-unsat-core)')
    else:
        out.append(l)
t = tempfile.NamedTemporaryFile('w', suffix='.smt2', delete=False)
t.write('\n'.join(out)); t.close()
r = subprocess.run(['z3-new', '-T:30', t.name], capture_output=True, text=True).stdout
print(r[:200])
for nm in re.findall(r'a\d+', r):
    print(nm, names[nm][:400])
