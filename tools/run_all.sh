#!/bin/bash
# runs every claimed quick check sequentially; prints one line per property
cd /verif
for id in $(python3 -c "import json;print(' '.join(c['property_id'] for c in json.load(open('MANIFEST.json'))['checks']))"); do
  out=$(./govc check $id --tier quick 2>&1); rc=$?
  echo "$id rc=$rc $(echo "$out" | tail -1 | cut -c1-160)"
  echo "$out" | grep "VIOLATION\|VACUITY" | cut -c1-200
done
