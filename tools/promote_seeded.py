#!/usr/bin/env python3
"""Confirms and promotes staged seeded changes.

usage: promote_seeded.py confirm <staging dirs...>   -> writes <dir>/confirm.json (scratch worktrees under /tmp, removed)
       promote_seeded.py detect  <staging dirs...>   -> applies each patch to /repo, runs the checks, reverts; <dir>/detect.json
       promote_seeded.py promote <staging dirs...>   -> copies confirmed changes to /verif/seeded/<id>/ with meta.json
"""
import json, os, subprocess, sys, shutil, re
ENV = dict(os.environ, GOFLAGS='-mod=mod', GOPROXY='off', GOSUMDB='off', GOTOOLCHAIN='local')
BASE = json.load(open('/root/.vp/BASELINE.json'))
STABLE = set(BASE['stable_pass'])

def sh(cmd, cwd=None, timeout=1800):
    p = subprocess.run(cmd, shell=True, cwd=cwd, env=ENV, capture_output=True, text=True, timeout=timeout)
    return p.returncode, p.stdout + p.stderr

def stable_failures(wt, pkgs):
    bad = []
    for pkg in pkgs:
        rc, out = sh(f'go test -json -vet=off -count=1 -timeout 20m {pkg}', cwd=wt)
        res = {}
        for l in out.splitlines():
            try: e = json.loads(l)
            except Exception: continue
            if e.get('Test') and e.get('Action') in ('pass', 'fail', 'skip'):
                res[e['Package'] + '::' + e['Test']] = e['Action']
        pk = None
        for k in res: pk = k.split('::')[0]; break
        if pk is None:
            bad.append(pkg + ' (no result: build failure?)'); continue
        for t in STABLE:
            if t.startswith(pk + '::') and res.get(t) != 'pass':
                bad.append(t + '=' + str(res.get(t)))
    return bad

def confirm(d):
    name = os.path.basename(d.rstrip('/'))
    wt = f'/tmp/cw-{name}'
    sh(f'git -C /repo worktree remove --force {wt}')
    shutil.rmtree(wt, ignore_errors=True)
    rc, out = sh(f'git -C /repo worktree add -q --detach {wt} HEAD')
    r = {'mutant': name, 'base': sh('git -C /repo rev-parse --short HEAD')[1].strip()}
    try:
        rc, out = sh(f'git apply {d}/patch.diff', cwd=wt)
        r['applies'] = rc == 0
        if rc != 0:
            return r
        rc, files = sh('git diff --name-only', cwd=wt)
        pkgs = sorted({'./' + os.path.dirname(f) for f in files.split() if f.endswith('.go')})
        r['pkgs'] = pkgs
        rc, out = sh('go build ./pkg/... ./cmd/...', cwd=wt)
        r['builds'] = rc == 0
        r['stable_tests_not_passing'] = stable_failures(wt, pkgs) if rc == 0 else ['build failed']
        dp = open(f'{d}/demo_path.txt').read().strip()
        shutil.copy(f'{d}/demo_test.go', f'{wt}/{dp}')
        m = re.search(r'func (TestMutantDemo\w*)', open(f'{d}/demo_test.go').read())
        tn = m.group(1) if m else 'TestMutantDemo'
        pk = './' + os.path.dirname(dp)
        rc, out = sh(f'go test -vet=off -count=1 -timeout 5m -run "^{tn}$" {pk}', cwd=wt)
        r['demo_with_change'] = 'PASS' if rc == 0 else 'FAIL'
        r['demo_output_with_change'] = '\n'.join([l for l in out.splitlines() if 'FAIL' in l or 'panic' in l or '_test.go' in l][:8])
        sh(f'git apply -R {d}/patch.diff', cwd=wt)
        rc, out = sh(f'go test -vet=off -count=1 -timeout 5m -run "^{tn}$" {pk}', cwd=wt)
        r['demo_without'] = 'PASS' if rc == 0 else 'FAIL'
        r['demo_test'] = tn
        r['demo_cmd'] = f'go test -vet=off -count=1 -run "^{tn}$" {pk}   (after copying demo_test.go to {dp})'
    finally:
        sh(f'git -C /repo worktree remove --force {wt}')
        shutil.rmtree(wt, ignore_errors=True)
    return r

RELATED = {'C07': ['C07', 'C11'], 'C11': ['C11', 'C07'], 'C04': ['C04', 'C05', 'C13'], 'C16': ['C16', 'C03'], 'C08': ['C08', 'C04']}

def detect(d):
    """runs the checks against a scratch worktree of HEAD with the change applied (never touches /repo)"""
    name = os.path.basename(d.rstrip('/'))
    pid = name.split('-')[0]
    wt = f'/tmp/dw-{name}'
    sh(f'git -C /repo worktree remove --force {wt}')
    shutil.rmtree(wt, ignore_errors=True)
    sh(f'git -C /repo worktree add -q --detach {wt} HEAD')
    r = {'mutant': name, 'checks': {}, 'base': sh('git -C /repo rev-parse --short HEAD')[1].strip()}
    try:
        rc, out = sh(f'git apply {d}/patch.diff', cwd=wt)
        if rc != 0:
            r['applies'] = False
            return r
        for cid in RELATED.get(pid, [pid]):
            rc, out = sh(f'/verif/bin/govc check {cid} --repo {wt} --no-evidence', cwd='/verif', timeout=3600)
            viol = [re.sub(r'^.*obligation=', '', l)[:200] for l in out.splitlines() if l.startswith('VIOLATION')]
            last = [l for l in out.splitlines() if l.startswith('property ')]
            r['checks'][cid] = {'exit': rc, 'violations': viol, 'summary': last[-1][:200] if last else out[-300:]}
    finally:
        sh(f'git -C /repo worktree remove --force {wt}')
        shutil.rmtree(wt, ignore_errors=True)
    r['caught_by'] = [c for c, v in r['checks'].items() if v['exit'] == 1 and v['violations']]
    return r

def promote(d):
    name = os.path.basename(d.rstrip('/'))
    c = json.load(open(f'{d}/confirm.json'))
    det = json.load(open(f'{d}/detect.json')) if os.path.exists(f'{d}/detect.json') else {}
    ok = c.get('applies') and c.get('builds') and not c.get('stable_tests_not_passing') and c.get('demo_with_change') == 'FAIL' and c.get('demo_without') == 'PASS'
    if not ok:
        print(name, 'NOT confirmed:', {k: c.get(k) for k in ('applies', 'builds', 'stable_tests_not_passing', 'demo_with_change', 'demo_without')})
        return
    out = f'/verif/seeded/{name}'
    os.makedirs(out, exist_ok=True)
    for f in ('patch.diff', 'demo_test.go', 'demo_path.txt', 'notes.md'):
        if os.path.exists(f'{d}/{f}'):
            shutil.copy(f'{d}/{f}', f'{out}/{f}')
    notes = open(f'{d}/notes.md').read() if os.path.exists(f'{d}/notes.md') else ''
    def section(title):
        m = re.search(r'##\s*' + title + r'[^\n]*\n(.*?)(\n## |\Z)', notes, re.S | re.I)
        return re.sub(r'\s+', ' ', m.group(1)).strip()[:900] if m else ''
    meta = {
        'id': name, 'breaks_property': name.split('-')[0],
        'summary': (notes.splitlines()[0].lstrip('# ').strip() if notes else ''),
        'what_breaks': section('Wh(?:at|ich)[^\n]*break'),
        'needs_to_manifest': section('What it needs'),
        'confirmed': {'base_commit': c['base'], 'applies': True, 'builds': True, 'stable_suite_of_packages': c['pkgs'],
                      'stable_tests_not_passing': [], 'demo_with_change': 'FAIL', 'demo_without_change': 'PASS', 'demo_cmd': c.get('demo_cmd')},
        'what_i_ran': ['git worktree add /tmp/cw-' + name + ' HEAD; git apply patch.diff; go build ./pkg/... ./cmd/...',
                       'go test -json -vet=off -count=1 <affected packages>: every test of the pinned stable_pass list of those packages passes',
                       c.get('demo_cmd', ''), 'same demonstration after git apply -R patch.diff: passes',
                       'git -C /repo apply patch.diff; bin/govc check <ids>; git -C /repo apply -R patch.diff'],
        'detection': det.get('checks', {}), 'caught_by': det.get('caught_by', []),
    }
    json.dump(meta, open(f'{out}/meta.json', 'w'), indent=1)
    print(name, 'promoted; caught by', meta['caught_by'])

if __name__ == '__main__':
    mode, dirs = sys.argv[1], sys.argv[2:]
    for d in dirs:
        d = d.rstrip('/')
        if mode == 'confirm':
            r = confirm(d); json.dump(r, open(f'{d}/confirm.json', 'w'), indent=1)
            print(json.dumps({k: r.get(k) for k in ('mutant', 'applies', 'builds', 'stable_tests_not_passing', 'demo_with_change', 'demo_without')}))
        elif mode == 'detect':
            r = detect(d); json.dump(r, open(f'{d}/detect.json', 'w'), indent=1)
            print(r['mutant'], 'caught_by', r.get('caught_by'), {c: len(v['violations']) for c, v in r['checks'].items()})
        elif mode == 'promote':
            promote(d)
        sys.stdout.flush()
