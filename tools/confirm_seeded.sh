#!/bin/bash
# Confirms staged mutants: patch applies to /repo HEAD, builds, affected package tests keep their baseline result,
# demo fails with the mutant and passes without.  Writes <dir>/confirm.json.  Scratch worktrees under /tmp, removed afterwards.
export GOFLAGS=-mod=mod GOPROXY=off GOSUMDB=off GOTOOLCHAIN=local
for d in "$@"; do
  name=$(basename $d)
  wt=/tmp/cw-$name
  git -C /repo worktree remove --force $wt 2>/dev/null
  git -C /repo worktree add -q --detach $wt HEAD || continue
  cd $wt
  res="{\"mutant\":\"$name\""
  if git apply $d/patch.diff 2>/dev/null; then res="$res,\"applies\":true"; else res="$res,\"applies\":false}"; echo $res > $d/confirm.json; cd /; git -C /repo worktree remove --force $wt; continue; fi
  pkgs=$(git diff --name-only | xargs -n1 dirname | sort -u | sed 's|^|./|' | tr '\n' ' ')
  if go build ./pkg/... ./cmd/... >/dev/null 2>&1; then res="$res,\"builds\":true"; else res="$res,\"builds\":false"; fi
  go test -vet=off -count=1 -timeout 15m $pkgs > /tmp/cw-$name.tests.log 2>&1
  fails=$(grep -E "^--- FAIL|^FAIL|^panic" /tmp/cw-$name.tests.log | grep -v "TestStart\|TestCancel\|TestRelease\|TestWebsocketListenerStartNetError\|TestCreatePing\|^FAIL$\|^FAIL.github" | tr '\n' ';' | cut -c1-300)
  res="$res,\"pkgs\":\"$pkgs\",\"unexpected_test_failures\":\"$fails\""
  dp=$(cat $d/demo_path.txt | tr -d '\n ')
  cp $d/demo_test.go $wt/$dp
  tn=$(grep -o "func TestMutantDemo[0-9A-Za-z_]*" $d/demo_test.go | head -1 | sed 's/func //')
  pk=./$(dirname $dp)
  if go test -vet=off -count=1 -timeout 5m -run "^$tn\$" $pk > /tmp/cw-$name.demo_mut.log 2>&1; then res="$res,\"demo_with_mutant\":\"PASS\""; else res="$res,\"demo_with_mutant\":\"FAIL\""; fi
  git apply -R $d/patch.diff
  if go test -vet=off -count=1 -timeout 5m -run "^$tn\$" $pk > /tmp/cw-$name.demo_clean.log 2>&1; then res="$res,\"demo_without\":\"PASS\""; else res="$res,\"demo_without\":\"FAIL\""; fi
  res="$res,\"test\":\"$tn\",\"base\":\"$(git -C /repo rev-parse --short HEAD)\"}"
  echo $res > $d/confirm.json
  echo $res
  cd /
  git -C /repo worktree remove --force $wt
  rm -f /tmp/cw-$name.*.log
done
