#!/usr/bin/env python3
"""Regenerates the generated tables of DESIGN.md (between the BEGIN/END markers) from seeded/*/meta.json,
seeded/_staging/*/{confirm,detect}.json, ledger/*.json and known_findings.json."""
import json, glob, os, re
root = '/verif'
rows = []
for d in sorted(glob.glob(root + '/seeded/_staging/C*-m*') + glob.glob(root + '/seeded/_staging3/C*-r*') + glob.glob(root + '/seeded/_staging4/C*-s*') + glob.glob(root + '/seeded/_staging5/C*-t*') + glob.glob(root + '/seeded/_staging6/C*-u*')):
    name = os.path.basename(d)
    c = json.load(open(d + '/confirm.json')) if os.path.exists(d + '/confirm.json') else {}
    det = json.load(open(d + '/detect.json')) if os.path.exists(d + '/detect.json') else {}
    notes = open(d + '/notes.md').read().splitlines()[0].lstrip('# ').strip() if os.path.exists(d + '/notes.md') else ''
    notes = re.sub(r'^C\d+[-\s/]*[mrstu]\d\s*[—:-]+\s*', '', notes)
    conf = 'yes' if (c.get('applies') and c.get('builds') and not c.get('stable_tests_not_passing') and c.get('demo_with_change') == 'FAIL' and c.get('demo_without') == 'PASS') else \
           ('no: ' + ', '.join(k + '=' + str(c.get(k)) for k in ('applies', 'builds', 'demo_with_change', 'demo_without') if c.get(k) not in (True, None) and not (k == 'demo_with_change' and c.get(k) == 'FAIL') and not (k == 'demo_without' and c.get(k) == 'PASS')) if c else 'not run')
    caught = ', '.join(det.get('caught_by') or []) or ('—' if det else 'not run')
    fp = json.load(open(d + '/detect_firstpass.json')) if os.path.exists(d + '/detect_firstpass.json') else None
    first = (', '.join(fp.get('caught_by') or []) or '—') if fp else 'same'
    obl = ''
    for cid, v in det.get('checks', {}).items():
        if v['violations']:
            obl = v['violations'][0].split(' no-failing')[0]
            break
    promoted = os.path.exists(root + '/seeded/' + name + '/meta.json')
    rows.append((name, notes[:90], conf, first, caught, obl[:110], 'yes' if promoted else 'no'))
tab = ['| change | what it does | confirmed (applies, builds, stable tests pass, demo fails with / passes without) | caught on first pass by | caught now by | first failing obligation | kept in seeded/ |', '|---|---|---|---|---|---|---|']
for r in rows:
    tab.append('| ' + ' | '.join(r) + ' |')
text = open(root + '/DESIGN.md').read()
b, e = '<!-- BEGIN seeded matrix -->', '<!-- END seeded matrix -->'
if b in text:
    text = text[:text.index(b) + len(b)] + '\n' + '\n'.join(tab) + '\n' + text[text.index(e):]
# per-property table
prow = ['| property | functions under contract in its check | obligations proved | covers confirmed / total | known findings |', '|---|---|---|---|---|']
for f in sorted(glob.glob(root + '/ledger/C*.json')):
    l = json.load(open(f))
    st = {}
    for o in l['obligations']:
        st[o['status'].split(':')[0]] = st.get(o['status'].split(':')[0], 0) + 1
    kf = [o['status'].split(':')[1] for o in l['obligations'] if o['status'].startswith('known-finding')]
    prow.append('| %s | %d | %d | %d / %d | %s |' % (os.path.basename(f)[:-5], len(l.get('functions', {})), st.get('proved', 0), st.get('cover', 0), st.get('cover', 0) + st.get('cover-unconfirmed', 0), ', '.join(kf) or '—'))
b, e = '<!-- BEGIN property table -->', '<!-- END property table -->'
if b in text:
    text = text[:text.index(b) + len(b)] + '\n' + '\n'.join(prow) + '\n' + text[text.index(e):]
open(root + '/DESIGN.md', 'w').write(text)
print(len(rows), 'seeded rows;', len(prow) - 2, 'property rows')
