#!/usr/bin/env python3
"""Runs every replay recipe against /repo's current tree with a few fixed inputs; on the unchanged tree every one must
PASS (a recipe whose oracle complains about correct code would turn failed proofs into false 'reproduced' reports)."""
import glob, json, os, re, subprocess, sys, tempfile
env = dict(os.environ, GOFLAGS='-mod=mod', GOPROXY='off', GOSUMDB='off', GOTOOLCHAIN='local')
samples = {'int': ['0', '1', '2', '3', '4', '-1', '255'], 'bool': ['false', 'true'],
           'string': ['""', '"a"', '"ERROR"', '"ERROR: boom\\n"', '"/"', '"/a.*/"', '"/(/"', '"fromnode"'],
           'bytes': ['[]byte{}', '[]byte{0}', '[]byte{1, 0, 7}', '[]byte{2, 0, 65, 66, 3, 0}', 'make([]byte, 36)', 'make([]byte, 300)']}
bad = 0
for f in sorted(glob.glob('/verif/replay_templates/*.tmpl')):
    text = open(f).read()
    params = []; target = pkg = ''; run = 'TestReplay'
    for l in text.splitlines():
        l = l.strip()
        if l.startswith('// PARAMS:'):
            for w in l[len('// PARAMS:'):].split():
                n, k = w.split(':', 1); params.append((n, k.split('@')[0]))
        if l.startswith('// FILE:'): target = l[len('// FILE:'):].strip()
        if l.startswith('// PKG:'): pkg = l[len('// PKG:'):].strip()
        if l.startswith('// RUN:'): run = l[len('// RUN:'):].strip()
    n = max(len(samples[k]) for _, k in params) if params else 1
    for i in range(n):
        t = text
        for name, k in params:
            t = t.replace('{{' + name + '}}', samples[k][i % len(samples[k])])
        d = tempfile.mkdtemp()
        tf = os.path.join(d, 'r_test.go'); open(tf, 'w').write(t)
        ov = os.path.join(d, 'ov.json'); json.dump({'Replace': {'/repo/' + target: tf}}, open(ov, 'w'))
        p = subprocess.run(['go', 'test', '-overlay', ov, '-vet=off', '-count=1', '-timeout', '60s', '-run', '^' + run + '$', pkg], cwd='/repo', env=env, capture_output=True, text=True)
        if p.returncode != 0:
            bad += 1
            print('RECIPE FAILS ON THIS TREE:', os.path.basename(f), 'inputs', [samples[k][i % len(samples[k])] for _, k in params]); print((p.stdout + p.stderr)[-400:])
    print(os.path.basename(f), 'ok' if not bad else 'see above')
sys.exit(1 if bad else 0)
