#!/usr/bin/env python3
"""usage: suite_check.py ./pkg/a/ ./pkg/b/ ...   (in /repo)
Runs the packages with go test -json and reports every test of the pinned stable_pass list (BASELINE.json) of those
packages that did not pass."""
import json, subprocess, sys, os
base = json.load(open('/root/.vp/BASELINE.json'))
stable = set(base['stable_pass'])
env = dict(os.environ, GOFLAGS='-mod=mod', GOPROXY='off', GOSUMDB='off', GOTOOLCHAIN='local')
bad = 0
for pkg in sys.argv[1:]:
    p = subprocess.run(['go', 'test', '-json', '-vet=off', '-count=1', '-timeout', '25m', pkg], cwd='/repo', env=env, capture_output=True, text=True)
    res = {}
    for l in p.stdout.splitlines():
        try: e = json.loads(l)
        except Exception: continue
        if e.get('Test') and e.get('Action') in ('pass', 'fail', 'skip'):
            res[e['Package'] + '::' + e['Test']] = e['Action']
    pk = None
    for k in res: pk = k.split('::')[0]; break
    want = [t for t in stable if pk and t.startswith(pk + '::')]
    miss = [t for t in want if res.get(t) != 'pass']
    print(pkg, 'stable tests:', len(want), 'not passing:', len(miss))
    for t in miss[:20]: print('   ', t, res.get(t))
    bad += len(miss)
sys.exit(1 if bad else 0)
