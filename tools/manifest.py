#!/usr/bin/env python3
"""Regenerates /verif/MANIFEST.json from the claim table below (single source of truth)."""
import json, subprocess, os

TECH = "contract-based deductive verification of the real code (own go/ssa VC generator, contracts in //@ comments, SMT portfolio z3/z3-new/cvc5)"
NOTE = ("trusted: the govc VC generator, go/ssa lowering, the SMT solvers; int/int64/uint64 as mathematical integers, float64 as reals; "
        "other threads only through monitor havoc + rely at lock acquisition; library calls per the models listed in evidence.assumptions; termination not proved")

CLAIMS = {
 "C02": ("proof", "All-input proofs of the wire codec (translateDataFromMessage/ToMessage byte layout, name padding, hash registration), the round-trip lemmas over those contracts, the stream framer (SendData/RecvData/GetMessage incl. no-clobber and non-aliasing of the caller's buffer), and of dispatch: handleMessageData delivers at most once, only to the listener registered for md.ToService on the local node, with the unchanged *MessageData, and forwards only non-local accepted packets; forwardMessage sends one wire image with all six fields preserved on the connection of the routing-table next hop. Not decided: multi-hop composition under real schedules, highwayhash collisions (assumed absent), PacketConn.ReadFrom/WriteTo glue."),
 "C07": ("proof", "Absence of panics (index, slice, nil, nil-map, type assertion, close), lock discipline (no re-acquisition, release on every path, balance per loop iteration, lockset for protected fields) for every datagram sequence in runProtocol, handleMessageData, forwardMessage, translateDataToMessage/FromMessage, name-hash table, framer. json.Unmarshal yields any value of the Go type. Not decided: handlers still without contract (listed as uncontracted callees in evidence), memory growth, liveness."),
 "C10": ("proof", "forwardMessage: budget 0 => no own send and exactly one 'expired' notice to the source unless the packet is itself a notice; budget h>0 => exactly one own send whose TTL byte is h-1 (exact byte arithmetic), to the next hop's connection; handleMessageData forwards only non-local packets regardless of TTL. Lemma hopbound (induction over the contract's fwdcount/fwdttl): at most h forwards in total for any routing tables. Not decided: traceroute/ping interpretation (ping.go), that routes are least-cost (C01)."),
 "C11": ("proof", "runProtocol: the only insertion into the connection table requires a non-empty ID different from the local one, not already connected (checked and inserted in one critical section), on the allow-list when one is set, with the per-node or default cost; after insertion every return path has called removeConnection for that ID (ghost flag), established implies inserted. Not decided: post-establishment rejections' wire effects, duplicate-node epoch handshake (handleRoutingUpdate), timing."),
 "C12": ("proof", "handleMessageData: the decision is decide(rules, md) = result of the first rule not returning Continue (recursive spec, loop invariant), Accept when none; Drop/Reject => no delivery, no forward; Reject => one ProblemRejected notice echoing the four address fields unless the packet is a notice; every effect site (forward, reserved dispatch, local delivery, notices) is guarded by the decision. Not decided yet: rule closures and ParseFirewallRule(s) (regexp semantics are a library matter)."),
 "C16": ("proof", "handleMessageData: a 'service unknown' notice is sent only for an accepted, local, non-reserved packet from a remote sender when no live listener is registered (state at the listenerLock acquisition), echoing the packet's four address fields, addressed to md.FromNode; a local sender gets the synchronous error. Not decided yet: the per-socket filter, monitorUnreachable, the broker."),
}

ALL = [f"C{i:02d}" for i in range(1, 21)]

def main():
    root = os.path.dirname(os.path.dirname(os.path.abspath(__file__)))
    hooks = subprocess.run(["git", "-C", "/repo", "log", "--format=%H %s"], capture_output=True, text=True).stdout.splitlines()
    hook_commits = [l.split()[0] for l in hooks if " verif hooks:" in l]
    m = {
     "version": 1,
     "setup_cmd": "cd engine && GOFLAGS=-mod=vendor GOPROXY=off GOSUMDB=off GOTOOLCHAIN=local go build -o ../bin/govc ./cmd/govc",
     "hooks": {"guard": "verif", "enable": "-tags verif (comment-only files pkg/<p>/verif_contracts.go carrying //@ contracts; no executable code)",
               "baseline_off_cmd": "cd /repo && GOFLAGS=-mod=mod GOPROXY=off GOSUMDB=off go test -vet=off -count=1 -timeout 25m ./...",
               "source_commits": hook_commits, "add_only": True},
     "engines": [{"name": "govc", "path": "engine", "serves_properties": sorted(CLAIMS),
                  "kind_free_text": "contract-based deductive verifier written for this task: go/ssa of the real packages (rebuilt from /repo on every run) -> passive VCs -> SMT-LIB2, discharged by z3 4.8.12 / z3 5.1.0 / cvc5 1.0"}],
     "checks": [], "not_applicable": [],
     "notes": "Every check loads /repo's working tree with -tags verif, regenerates all obligations, compares with the committed ledger (ledger/<ID>.json) and known_findings.json.",
    }
    for pid in ALL:
        if pid in CLAIMS:
            cat, text = CLAIMS[pid]
            m["checks"].append({"property_id": pid, "quick_cmd": f"bin/govc check {pid} --tier quick", "thorough_cmd": f"bin/govc check {pid} --tier thorough",
              "evidence_file": f"evidence/{pid}.json", "replay_cmd_template": "bin/govc replay {path}", "engine": "govc",
              "level_claimed": {"category": cat, "text": text, "design_ref": f"DESIGN.md section 6 {pid}"}, "level_note": NOTE, "technique": TECH})
        else:
            m["not_applicable"].append({"property_id": pid, "reason": "contracts for this property are not under check yet (work in progress; see DESIGN.md section 6 for the plan)"})
    json.dump(m, open(os.path.join(root, "MANIFEST.json"), "w"), indent=1)
    print("claimed:", sorted(CLAIMS))

main()
