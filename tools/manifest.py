#!/usr/bin/env python3
"""Regenerates /verif/MANIFEST.json from the claim table below (single source of truth)."""
import json, subprocess, os

TECH = "contract-based deductive verification of the real code (own go/ssa VC generator, contracts in //@ comments, SMT portfolio z3/z3-new/cvc5)"
NOTE = ("trusted: the govc VC generator, go/ssa lowering, the SMT solvers; int/int64/uint64 as mathematical integers, float64 as reals; "
        "other threads only through monitor havoc + rely at lock acquisition; library calls per the models listed in evidence.assumptions; termination not proved")

CLAIMS = {
 "C02": ("proof", "All-input proofs of the wire codec (translateDataFromMessage/ToMessage byte layout, name padding, hash registration), the round-trip lemmas over those contracts, the stream framer (SendData/RecvData/GetMessage incl. no-clobber and non-aliasing of the caller's buffer), and of dispatch: handleMessageData delivers at most once, only to the listener registered for md.ToService on the local node, with the unchanged *MessageData, and forwards only non-local accepted packets; forwardMessage sends one wire image with all six fields preserved on the connection of the routing-table next hop. Not decided: multi-hop composition under real schedules, highwayhash collisions (assumed absent), PacketConn.ReadFrom/WriteTo glue."),
 "C07": ("proof", "Absence of panics (index, slice, nil, nil-map, type assertion, close), lock discipline (no re-acquisition, release on every path, balance per loop iteration, lockset for protected fields) for every datagram sequence in runProtocol, handleMessageData, forwardMessage, translateDataToMessage/FromMessage, name-hash table, framer. json.Unmarshal yields any value of the Go type. Not decided: handlers still without contract (listed as uncontracted callees in evidence), memory growth, liveness."),
 "C10": ("proof", "forwardMessage: budget 0 => no own send and exactly one 'expired' notice to the source unless the packet is itself a notice; budget h>0 => exactly one own send whose TTL byte is h-1 (exact byte arithmetic), to the next hop's connection; handleMessageData forwards only non-local packets regardless of TTL. Lemma hopbound (induction over the contract's fwdcount/fwdttl): at most h forwards in total for any routing tables. Not decided: traceroute/ping interpretation (ping.go), that routes are least-cost (C01)."),
 "C11": ("proof", "runProtocol: the only insertion into the connection table requires a non-empty ID different from the local one, not already connected (checked and inserted in one critical section), on the allow-list when one is set, with the per-node or default cost; after insertion every return path has called removeConnection for that ID (ghost flag), established implies inserted. Not decided: post-establishment rejections' wire effects, duplicate-node epoch handshake (handleRoutingUpdate), timing."),
 "C12": ("proof", "handleMessageData: the decision is decide(rules, md) = result of the first rule not returning Continue (recursive spec, loop invariant), Accept when none; Drop/Reject => no delivery, no forward; Reject => one ProblemRejected notice echoing the four address fields unless the packet is a notice; every effect site (forward, reserved dispatch, local delivery, notices) is guarded by the decision. Not decided yet: rule closures and ParseFirewallRule(s) (regexp semantics are a library matter)."),
 "C06": ("proof", "handleRoutingUpdate, all inputs and all interleavings of its critical sections: an update naming the local node as origin is never stored or relayed (own epoch: ignored; newer epoch: one own update carrying the suspicion; suspected == own epoch: shutdown); the UpdateID test-and-insert is one critical section (the store requires the id to be absent at the acquisition that is still held); the (epoch, sequence) stored for an origin and the relay both require the update to be strictly newer than what was known at the lock acquisition; the relay goes to flood(msg, receiving connection) with ForwardingNode rewritten. Known finding D15 (suspected-duplicate notices are relayed without the freshness test) is reported, anything else on that obligation is a violation. Not decided: flooding termination across nodes (counting lemma), expiry of seenUpdates, the monotonicity guarantee as a two-state invariant."),
 "C14": ("proof", "Save, Load, UpdateFullStatus: typestate obligations over ghost flags - every open/stat/seek/read/truncate/write of the status file happens after lockStatusFile(filename) succeeded and before the matching unlockStatusFile(filename, thatLock), which runs on every path; in UpdateFullStatus the record handed to the callback was loaded after the lock was taken whenever the file is non-empty, the callback precedes truncate precedes the single write-back of the same object. Not decided: lockedfile/flock mutual exclusion itself (assumed), callers of these primitives."),
 "C15": ("proof", "processSignature returns nil exactly when (the type does not verify and no token was sent) or (it verifies and (the connection is the unix socket or VerifySignature accepted the token)); in ControlFunc every call of AllocateUnit, AllocateRemoteUnit, Cancel, Release and GetResults is dominated by that decision for the unit's own work type, and the unix flag can only be true when RemoteAddr().Network() == \"unix\"; VerifySignature rejects empty tokens / missing key, parses exactly the given token and requires the audience claim. Not decided: golang-jwt semantics (assumed, named sigok), key loading."),
 "C18": ("proof", "handleServiceAdvertisement: an entry is stored, or deleted by a cancel, or relayed only when no entry was known at the lock acquisition or the message is strictly newer than the known one; what is stored is the received advertisement under its own service name; the relay passes the received bytes and excludes the sender. Not decided: withdrawn-service history (no tombstones: D13, not expressible without a history ghost), convergence."),
 "C19": ("proof", "remoteUnit.Status: in the returned record no key k with HasPrefix(ToLower(k), \"secret_\") remains (loop invariants with the visited-set ghost), non-secret entries are untouched, and nothing that existed before the call is modified (frame: only the fresh copy made by UnredactedStatus, whose contract is trusted); AllocateRemoteUnit reaches AllocateUnit only with a TLS client profile or a parameter map without secret keys. Not decided: unitStatusForCFR (reflection), error strings and logs."),
 "C16": ("proof", "handleMessageData: a 'service unknown' notice is sent only for an accepted, local, non-reserved packet from a remote sender when no live listener is registered (state at the listenerLock acquisition), echoing the packet's four address fields, addressed to md.FromNode; a local sender gets the synchronous error. Not decided yet: the per-socket filter, monitorUnreachable, the broker."),
}

ALL = [f"C{i:02d}" for i in range(1, 21)]

def main():
    root = os.path.dirname(os.path.dirname(os.path.abspath(__file__)))
    hooks = subprocess.run(["git", "-C", "/repo", "log", "--format=%H %s"], capture_output=True, text=True).stdout.splitlines()
    hook_commits = [l.split()[0] for l in hooks if " verif hooks:" in l]
    m = {
     "version": 1,
     "setup_cmd": "cd engine && GOFLAGS=-mod=vendor GOPROXY=off GOSUMDB=off GOTOOLCHAIN=local go build -o ../bin/govc ./cmd/govc",
     "hooks": {"guard": "verif", "enable": "-tags verif (comment-only files pkg/<p>/verif_contracts.go carrying //@ contracts; no executable code)",
               "baseline_off_cmd": "cd /repo && GOFLAGS=-mod=mod GOPROXY=off GOSUMDB=off go test -vet=off -count=1 -timeout 25m ./...",
               "source_commits": hook_commits, "add_only": True},
     "engines": [{"name": "govc", "path": "engine", "serves_properties": sorted(CLAIMS),
                  "kind_free_text": "contract-based deductive verifier written for this task: go/ssa of the real packages (rebuilt from /repo on every run) -> passive VCs -> SMT-LIB2, discharged by z3 4.8.12 / z3 5.1.0 / cvc5 1.0"}],
     "checks": [], "not_applicable": [],
     "notes": "Every check loads /repo's working tree with -tags verif, regenerates all obligations, compares with the committed ledger (ledger/<ID>.json) and known_findings.json.",
    }
    for pid in ALL:
        if pid in CLAIMS:
            cat, text = CLAIMS[pid]
            m["checks"].append({"property_id": pid, "quick_cmd": f"bin/govc check {pid} --tier quick", "thorough_cmd": f"bin/govc check {pid} --tier thorough",
              "evidence_file": f"evidence/{pid}.json", "replay_cmd_template": "bin/govc replay {path}", "engine": "govc",
              "level_claimed": {"category": cat, "text": text, "design_ref": f"DESIGN.md section 6 {pid}"}, "level_note": NOTE, "technique": TECH})
        else:
            m["not_applicable"].append({"property_id": pid, "reason": "contracts for this property are not under check yet (work in progress; see DESIGN.md section 6 for the plan)"})
    json.dump(m, open(os.path.join(root, "MANIFEST.json"), "w"), indent=1)
    print("claimed:", sorted(CLAIMS))

main()
