#!/usr/bin/env python3
"""usage: run_patch.py <patch.diff> <ID> [<ID>...]
Applies the patch to a scratch worktree of /repo HEAD (under /tmp, removed afterwards) and runs the given checks against
it with `govc check --repo`.  Prints one line per check: exit code, violations, undecided count."""
import os, re, subprocess, sys, shutil, hashlib
patch = os.path.abspath(sys.argv[1]); ids = sys.argv[2:]
tag = hashlib.md5(patch.encode()).hexdigest()[:8]
wt = f'/tmp/rp-{tag}'
def sh(cmd, cwd=None):
    p = subprocess.run(cmd, shell=True, cwd=cwd, capture_output=True, text=True)
    return p.returncode, p.stdout + p.stderr
sh(f'git -C /repo worktree remove --force {wt}'); shutil.rmtree(wt, ignore_errors=True)
sh(f'git -C /repo worktree add -q --detach {wt} HEAD')
try:
    rc, out = sh(f'git apply {patch}', cwd=wt)
    if rc != 0:
        print(os.path.basename(patch), 'DOES NOT APPLY', out[:200]); sys.exit(0)
    for cid in ids:
        rc, out = sh(f'/verif/bin/govc check {cid} --repo {wt} --no-evidence', cwd='/verif')
        viol = [re.sub(r'^.*obligation=', '', l)[:150] for l in out.splitlines() if l.startswith('VIOLATION')]
        und = [l for l in out.splitlines() if l.startswith('UNDECIDED')]
        vac = [l for l in out.splitlines() if l.startswith('VACUITY')]
        print(os.path.basename(patch), cid, 'exit', rc, 'violations', len(viol), 'undecided', len(und), 'vacuity', len(vac), '|', '; '.join(viol[:3]), '|', (und[0][:160] if und else ''))
        sys.stdout.flush()
finally:
    sh(f'git -C /repo worktree remove --force {wt}'); shutil.rmtree(wt, ignore_errors=True)
