#!/bin/bash
# usage: tools/try_seeded.sh <seeded-dir> <ID> [ID...]   -- applies the patch to /repo, runs the checks, reverts the patch only
d=$1; shift
cd /repo && git apply "$d/patch.diff" || { echo "patch does not apply"; exit 2; }
for id in "$@"; do
  (cd /verif && bin/govc check $id --no-evidence 2>&1 | grep -v "^UNDECIDED unbound" | grep "VIOLATION\|^property\|SETUP" | cut -c1-220)
done
cd /repo && git apply -R "$d/patch.diff"
