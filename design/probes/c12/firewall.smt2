; C12 worked VCs.
; (1) closure firewallRule$match: loop `for _, comp := range comparers { matched = matched && comp(md) }`
;     SSA shape: rangeindex.loop with phi #matched (t2) and phi #rangeindex (t3); short-circuit: comp called only if matched.
; (2) handleMessageData rule loop: result = firstMatch(rules, md) with recursive spec function.
(set-logic ALL)
(declare-sort MD 0)                       ; *MessageData together with the four field heaps it is read under
(declare-fun applyC (Int MD) Bool)        ; apply_CompareFunc(fn, md): pure (every inflowing closure verified side-effect free)
(declare-fun comps (Int) Int)             ; Mem of the captured slice *comparers
(declare-const n Int) (assert (>= n 0))   ; len(comparers)
(declare-const md MD)
(declare-const act Int)                   ; *result cell: 1 accept, 2 reject, 3 drop
(define-fun allUpTo ((k Int)) Bool (forall ((j Int)) (=> (and (<= 0 j) (< j k)) (applyC (comps j) md))))
(push) ; firewallRule$match#inv:range-comparers:entry   (idx = 0, matched = true)
(assert (not (= true (allUpTo 0))))
(check-sat)
(pop)
(push) ; ...:preserve   inv: 0<=i<=n, matched <=> allUpTo(i)
(declare-const i Int) (declare-const matched Bool)
(assert (and (<= 0 i) (< i n) (= matched (allUpTo i))))
(define-fun matched2 () Bool (ite matched (applyC (comps i) md) false))     ; phi #&& of block binop.done
(assert (not (and (<= 0 (+ i 1)) (<= (+ i 1) n) (= matched2 (allUpTo (+ i 1))))))
(check-sat)
(pop)
(push) ; firewallRule$match#ensures   (exit: i = n)
(declare-const matched Bool)
(assert (= matched (allUpTo n)))
(define-fun res () Int (ite matched act 0))
(assert (not (= res (ite (forall ((j Int)) (=> (and (<= 0 j) (< j n)) (applyC (comps j) md))) act 0))))
(check-sat)
(pop)
; ---------- (2) rule loop ----------
(declare-fun applyR (Int MD) Int)         ; apply_FirewallRuleFunc(rule, md) in {0 continue,1 accept,2 reject,3 drop}
(declare-fun rules (Int) Int)
(declare-const nr Int) (assert (>= nr 0))
; spec firstMatch(i) = rules[i..] : recursive definition given as its unfolding axiom
(declare-fun firstMatch (Int) Int)
(assert (forall ((k Int)) (! (=> (and (<= 0 k) (< k nr)) (= (firstMatch k) (ite (not (= (applyR (rules k) md) 0)) (applyR (rules k) md) (firstMatch (+ k 1))))) :pattern ((firstMatch k)))))
(assert (= (firstMatch nr) 1))
(push) ; handleMessageData#inv:range-firewallRules:preserve   inv(i,res): firstMatch(0) = firstMatch(i) /\ (i = 0 => res = Accept) /\ (i > 0 => res = 0)
(declare-const i Int) (declare-const res Int)
(assert (and (<= 0 i) (< i nr) (= (firstMatch 0) (firstMatch i)) (ite (= i 0) (= res 1) (= res 0))))
(define-fun res2 () Int (applyR (rules i) md))
; either break (res2 != 0): post must hold; or continue: invariant at i+1
(assert (not (ite (not (= res2 0))
                  (= res2 (firstMatch 0))
                  (and (<= (+ i 1) nr) (= (firstMatch 0) (firstMatch (+ i 1))) (= res2 0)))))
(check-sat)
(pop)
(push) ; handleMessageData#ensures:result=firstMatch   at normal loop exit (i = nr)
(declare-const res Int)
(assert (and (= (firstMatch 0) (firstMatch nr)) (ite (= nr 0) (= res 1) (= res 0))))
; NOTE: at exit with nr > 0 the code's `result` is Continue(0) and the switch below treats it as "do nothing" = accept path.
(assert (not (= (ite (= res 0) 1 res) (firstMatch 0))))
(check-sat)
(pop)
