; C02 worked VC in the engine's slice encoding: slice = (ref, off, len, cap); Mem_byte : ref -> index -> byte.
; Function (*framer).GetMessage with callee contract of messageReady inlined as its postcondition.
(set-logic ALL)
(declare-const Mem (Array Int (Array Int Int)))
(assert (forall ((r Int) (i Int)) (and (<= 0 (select (select Mem r) i)) (< (select (select Mem r) i) 256))))
(declare-const br Int) (declare-const bo Int) (declare-const bl Int) (declare-const bc Int)   ; f.buffer at entry
(assert (and (> br 0) (>= bo 0) (>= bl 0) (<= bl bc)))
(define-fun view ((i Int)) Int (select (select Mem br) (+ bo i)))
; callee contract messageReady(): (msgSize, ready)
(declare-const msgSize Int) (declare-const ready Bool)
(assert (ite (< bl 2) (and (= msgSize 0) (not ready))
             (and (= msgSize (+ (view 0) (* 256 (view 1)))) (= ready (>= bl (+ msgSize 2))))))
(push) ; GetMessage#safe:slice:f.buffer[2:msgSize+2]  and  #safe:slice:f.buffer[msgSize+2:]   on the ready path
(assert ready)
(assert (not (and (<= 0 2) (<= 2 (+ msgSize 2)) (<= (+ msgSize 2) bc)      ; slice hi bound is cap for slices
                  (<= 0 (+ msgSize 2)) (<= (+ msgSize 2) bl))))            ; low bound of an open-ended slice is checked against len
(check-sat)
(pop)
(push) ; GetMessage#ensures: result == view[2:n+2], buffer' == view[n+2:]  (abstract view of the remaining buffer)
(assert ready)
(define-fun rr () Int br) (define-fun ro () Int (+ bo 2)) (define-fun rl () Int msgSize)          ; result slice
(define-fun nbo () Int (+ bo msgSize 2)) (define-fun nbl () Int (- bl (+ msgSize 2)))              ; f.buffer afterwards
(assert (not (and (= rl (+ (view 0) (* 256 (view 1))))
                  (forall ((i Int)) (=> (and (<= 0 i) (< i rl)) (= (select (select Mem rr) (+ ro i)) (view (+ 2 i)))))
                  (>= nbl 0)
                  (forall ((i Int)) (=> (and (<= 0 i) (< i nbl)) (= (select (select Mem br) (+ nbo i)) (view (+ msgSize 2 i))))))))
(check-sat)
(pop)
(push) ; lemma#C02.framing.step: if the view starts with frame(m) (LE16 length ++ bytes, len(m) <= 65535) then messageReady is true and GetMessage returns m
(declare-fun mb (Int) Int) (declare-const ml Int)
(assert (and (<= 0 ml) (<= ml 65535)))
(assert (>= bl (+ ml 2)))
(assert (and (= (view 0) (mod ml 256)) (= (view 1) (div ml 256))))
(assert (forall ((i Int)) (=> (and (<= 0 i) (< i ml)) (= (view (+ 2 i)) (mb i)))))
(assert (not (and ready (= msgSize ml)
                  (forall ((i Int)) (=> (and (<= 0 i) (< i ml)) (= (select (select Mem br) (+ (+ bo 2) i)) (mb i)))))))
(check-sat)
(pop)
(push) ; mutant C02-4: messageReady compares len(buffer) >= msgSize+1  -> the slice bound obligation must fail (expect sat)
(declare-const ready_m Bool)
(assert (=> (>= bl 2) (= ready_m (>= bl (+ msgSize 1)))))
(assert (>= bl 2)) (assert ready_m)
(assert (not (<= (+ msgSize 2) bl)))
(check-sat)
(pop)
