; C06 worked VC in the intended engine encoding (Burstall field heaps + map arrays + allocation counter).
; Function: (*Netceptor).handleRoutingUpdate, branch SuspectedDuplicate == 0, critical section of knownNodeLock.
; Obligation: handleRoutingUpdate#guar:knownNodeLock:info-monotone
;   for every origin x known at Lock time, lex(info[x]) does not decrease at Unlock, and the accepted update is strictly newer.
(set-logic ALL)
(declare-sort Str 0)
(declare-const next0 Int)
; receiver s, argument ri
(declare-const s Int) (declare-const ri Int)
(assert (and (> s 0) (< s next0) (> ri 0) (< ri next0)))
; field heaps at Lock time (version 0)
(declare-const H_ri_NodeID (Array Int Str))
(declare-const H_ri_Epoch (Array Int Int)) (declare-const H_ri_Seq (Array Int Int))
(declare-const H_s_info (Array Int Int))                       ; s.knownNodeInfo : map handle
(declare-const MapHas0 (Array Int (Array Str Bool)))           ; map[string]*nodeInfo
(declare-const MapVal0 (Array Int (Array Str Int)))
(declare-const H_ni_Epoch0 (Array Int Int)) (declare-const H_ni_Seq0 (Array Int Int))
(define-fun m () Int (select H_s_info s))
(define-fun o () Str (select H_ri_NodeID ri))
(define-fun e () Int (select H_ri_Epoch ri))
(define-fun q () Int (select H_ri_Seq ri))
; uint64 ranges
(assert (and (>= e 0) (>= q 0)))
; lock invariant assumed at Lock(): map non-nil, values non-nil, allocated, injective
(assert (> m 0))
(define-fun has0 ((k Str)) Bool (select (select MapHas0 m) k))
(define-fun val0 ((k Str)) Int (select (select MapVal0 m) k))
(assert (forall ((k Str)) (=> (has0 k) (and (> (val0 k) 0) (< (val0 k) next0)))))
(assert (forall ((a Str) (b Str)) (=> (and (has0 a) (has0 b) (not (= a b))) (not (= (val0 a) (val0 b))))))
; --- the code path (passified) ---
(define-fun ok () Bool (has0 o))
(define-fun ni_old () Int (ite ok (val0 o) 0))                 ; t137 / zero value when !ok
(define-fun stale () Bool (and ok (or (< e (select H_ni_Epoch0 ni_old))
                                      (and (= e (select H_ni_Epoch0 ni_old)) (<= q (select H_ni_Seq0 ni_old))))))
; not stale: ni = ok ? existing : new nodeInfo (fresh ref = next0)
(define-fun ni () Int (ite ok ni_old next0))
(define-fun H_ni_Epoch1 () (Array Int Int) (store H_ni_Epoch0 ni e))       ; ni.Epoch = ri.UpdateEpoch (in place!)
(define-fun H_ni_Seq1 () (Array Int Int) (store H_ni_Seq0 ni q))
(define-fun MapHas1 () (Array Int (Array Str Bool)) (store MapHas0 m (store (select MapHas0 m) o true)))   ; s.knownNodeInfo[o] = ni
(define-fun MapVal1 () (Array Int (Array Str Int)) (store MapVal0 m (store (select MapVal0 m) o ni)))
(define-fun has1 ((k Str)) Bool (select (select MapHas1 m) k))
(define-fun val1 ((k Str)) Int (select (select MapVal1 m) k))
(define-fun lexle ((e1 Int) (s1 Int) (e2 Int) (s2 Int)) Bool (or (< e1 e2) (and (= e1 e2) (<= s1 s2))))
(define-fun lexlt ((e1 Int) (s1 Int) (e2 Int) (s2 Int)) Bool (or (< e1 e2) (and (= e1 e2) (< s1 s2))))
(push) ; (a) guarantee on the accepting path
(assert (not stale))
(assert (not (and
  (forall ((x Str)) (=> (has0 x) (and (has1 x)
       (lexle (select H_ni_Epoch0 (val0 x)) (select H_ni_Seq0 (val0 x)) (select H_ni_Epoch1 (val1 x)) (select H_ni_Seq1 (val1 x))))))
  (=> ok (lexlt (select H_ni_Epoch0 (val0 o)) (select H_ni_Seq0 (val0 o)) (select H_ni_Epoch1 (val1 o)) (select H_ni_Seq1 (val1 o))))
  (= (select H_ni_Epoch1 (val1 o)) e) (= (select H_ni_Seq1 (val1 o)) q)
  ; lock invariant re-established at Unlock (with next1 = next0+1)
  (forall ((k Str)) (=> (has1 k) (and (> (val1 k) 0) (< (val1 k) (+ next0 1)))))
  (forall ((a Str) (b Str)) (=> (and (has1 a) (has1 b) (not (= a b))) (not (= (val1 a) (val1 b))))))))
(check-sat)
(pop)
(push) ; (b) mutant C06-1: the sequence test is '<' instead of '<=' : an equal update is accepted -> strictness must fail (expect sat)
(define-fun stale_mut () Bool (and ok (or (< e (select H_ni_Epoch0 ni_old))
                                          (and (= e (select H_ni_Epoch0 ni_old)) (< q (select H_ni_Seq0 ni_old))))))
(assert (not stale_mut))
(assert (not (=> ok (lexlt (select H_ni_Epoch0 (val0 o)) (select H_ni_Seq0 (val0 o)) (select H_ni_Epoch1 (val1 o)) (select H_ni_Seq1 (val1 o))))))
(check-sat)
(pop)
; note: the injectivity clause of the lock invariant is what makes (a) provable: ni is mutated IN PLACE, so an alias
; between two origins' *nodeInfo would let the store regress another origin. The engine therefore needs the
; allocation facts (every stored ref < next; a fresh ref = next) exactly as written above.
