; C07 worked example of the known-finding mechanism (DESIGN 4.4) on D1.
; Obligation runProtocol#safe:index:data[0] : on the path where a datagram was received, 0 < len(data).
; Input symbol of the obligation: len_data (length of the slice returned by BackendSession.Recv; any value >= 0 by the library contract).
(set-logic ALL)
(declare-const len_data Int)
(assert (>= len_data 0))                       ; trusted Recv contract: a slice of any length, including 0
(push) ; unrestricted obligation: expected sat on the pinned tree (the defect), model len_data = 0  -> replayed by TestReproD1
(assert (not (< 0 len_data)))
(check-sat) (get-model)
(pop)
(push) ; known finding D1 has class (= len_data 0): ask for a counterexample OUTSIDE the class. unsat => only the listed failure exists
(assert (not (= len_data 0)))
(assert (not (< 0 len_data)))
(check-sat)
(pop)
; A second, different violation of the same obligation (say an edit that also indexes data[1]) has the obligation
; (< 1 len_data), for which the query outside the class is sat (len_data = 1) => VIOLATION, not KNOWN-FINDING.
(push)
(assert (not (= len_data 0)))
(assert (not (< 1 len_data)))
(check-sat)
(pop)
