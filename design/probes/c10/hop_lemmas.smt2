; C10 lemmas over the CONTRACT of forwardMessage/handleMessageData only (no code):
;   contract summary for a packet with remaining budget t arriving at node x for destination d (x != d):
;     t = 0  -> no send, one expiry notice created at x (E1,E2)
;     t > 0  -> at most one send, to nexthop(x,d), carrying t-1 (E3,E4)
;   at x = d the packet is delivered locally whatever t is (H3/H4), no send.
; hopbound: F(t) = worst-case number of sends caused by a packet with budget t, for ANY next-hop function (loops allowed).
(set-logic ALL)
(declare-fun F (Int) Int)
; recurrence extracted from the contract: F(0) = 0 ; F(t+1) <= 1 + F(t)
(assert (= (F 0) 0))
(assert (forall ((t Int)) (=> (>= t 0) (<= (F (+ t 1)) (+ 1 (F t))))))
(push) ; lemma#C10.hopbound.base
(assert (not (<= (F 0) 0)))
(check-sat)
(pop)
(push) ; lemma#C10.hopbound.step : F(t) <= t  ->  F(t+1) <= t+1
(declare-const t Int) (assert (>= t 0)) (assert (<= (F t) t))
(assert (not (<= (F (+ t 1)) (+ t 1))))
(check-sat)
(pop)
; reach_iff: route p(0..d) with p(i+1) = nexthop(p(i)), budget h at p(0). ttl(i) = budget on arrival at p(i); arr(i) = the packet arrives at p(i).
(declare-const h Int) (declare-const d Int) (assert (and (>= h 0) (<= h 255) (>= d 0)))
(declare-fun arr (Int) Bool) (declare-fun ttl (Int) Int)
(assert (and (arr 0) (= (ttl 0) h)))
; contract instantiated at hop i < d (p(i) is not the destination): forwarded iff arrived with ttl > 0, carrying ttl-1
(assert (forall ((i Int)) (=> (and (<= 0 i) (< i d)) (and (= (arr (+ i 1)) (and (arr i) (> (ttl i) 0))) (= (ttl (+ i 1)) (- (ttl i) 1))))))
(push) ; lemma#C10.reach_iff.step : invariant J(i): ttl(i) = h - i  /\  (arr(i) <=> i <= h)   is inductive for i < d
(declare-const i Int) (assert (and (<= 0 i) (< i d)))
(assert (and (= (ttl i) (- h i)) (= (arr i) (<= i h))))
(assert (not (and (= (ttl (+ i 1)) (- h (+ i 1))) (= (arr (+ i 1)) (<= (+ i 1) h)))))
(check-sat)
(pop)
(push) ; lemma#C10.reach_iff.base
(assert (not (and (= (ttl 0) (- h 0)) (= (arr 0) (<= 0 h)))))
(check-sat)
(pop)
(push) ; lemma#C10.expiry_site : with J(i) for all i <= d and d > h, the node that sees ttl = 0 is p(h), and it is on the route before the destination
(assert (forall ((i Int)) (=> (and (<= 0 i) (<= i d)) (and (= (ttl i) (- h i)) (= (arr i) (<= i h))))))
(assert (> d h))
(assert (not (and (arr h) (= (ttl h) 0) (< h d) (not (arr (+ h 1))))))
(check-sat)
(pop)
