; C19 worked VCs: (*remoteUnit).Status  — two loops:
;   L1 rangeiter over ed.RemoteParams collecting keysToDelete (slice, append)   L2 rangeindex over keysToDelete doing delete()
; Encoding: map[string]string as (has, val); `visited` ghost for the map range; keysToDelete as (len, content) sequence.
; isSecret(k) := strings.HasPrefix(strings.ToLower(k), "secret_")  -- uninterpreted library functions, same term as in the code.
(set-logic ALL)
(declare-sort Str 0)
(declare-fun ToLower (Str) Str) (declare-fun HasPrefix (Str Str) Bool) (declare-const lit_secret Str)
(define-fun isSecret ((k Str)) Bool (HasPrefix (ToLower k) lit_secret))
(declare-fun has0 (Str) Bool) (declare-fun val0 (Str) Str)          ; the copy returned by UnredactedStatus (fresh map)
; ---------- L1 ----------
(declare-fun vis (Str) Bool) (declare-fun ktd (Int) Str) (declare-const nk Int)
(define-fun inv1 () Bool (and (>= nk 0)
   (forall ((j Int)) (=> (and (<= 0 j) (< j nk)) (and (has0 (ktd j)) (vis (ktd j)) (isSecret (ktd j)))))
   (forall ((k Str)) (=> (and (vis k) (isSecret k)) (exists ((j Int)) (and (<= 0 j) (< j nk) (= (ktd j) k)))))
   (forall ((k Str)) (=> (vis k) (has0 k)))))
(push) ; Status#inv:range-RemoteParams:preserve
(assert inv1)
(declare-const k Str) (assert (and (has0 k) (not (vis k))))          ; Next(): an unvisited key
(define-fun vis2 ((x Str)) Bool (or (vis x) (= x k)))
(define-fun nk2 () Int (ite (isSecret k) (+ nk 1) nk))
(define-fun ktd2 ((j Int)) Str (ite (and (isSecret k) (= j nk)) k (ktd j)))   ; append
(assert (not (and (>= nk2 0)
   (forall ((j Int)) (=> (and (<= 0 j) (< j nk2)) (and (has0 (ktd2 j)) (vis2 (ktd2 j)) (isSecret (ktd2 j)))))
   (forall ((x Str)) (=> (and (vis2 x) (isSecret x)) (exists ((j Int)) (and (<= 0 j) (< j nk2) (= (ktd2 j) x)))))
   (forall ((x Str)) (=> (vis2 x) (has0 x))))))
(check-sat)
(pop)
; ---------- L2 + postcondition ----------
(push) ; Status#inv:range-keysToDelete:preserve  and  Status#ensures
(assert inv1)
(assert (forall ((x Str)) (= (vis x) (has0 x))))                     ; L1 finished: visited = domain
(declare-fun has1 (Str) Bool) (declare-const i Int)                  ; map after i deletions
(define-fun inv2 ((ii Int) ) Bool (and (<= 0 ii) (<= ii nk)
   (forall ((x Str)) (= (has1 x) (and (has0 x) (not (exists ((j Int)) (and (<= 0 j) (< j ii) (= (ktd j) x)))))))))
(assert (inv2 i)) (assert (< i nk))
(define-fun has2 ((x Str)) Bool (and (has1 x) (not (= x (ktd i)))))   ; delete(m, keysToDelete[i])
(assert (not (and (<= 0 (+ i 1)) (<= (+ i 1) nk)
   (forall ((x Str)) (= (has2 x) (and (has0 x) (not (exists ((j Int)) (and (<= 0 j) (< j (+ i 1)) (= (ktd j) x))))))))))
(check-sat)
(pop)
(push) ; Status#ensures: at exit of L2 (i = nk): secrets gone, everything else kept
(assert inv1)
(assert (forall ((x Str)) (= (vis x) (has0 x))))
(declare-fun has1 (Str) Bool)
(assert (forall ((x Str)) (= (has1 x) (and (has0 x) (not (exists ((j Int)) (and (<= 0 j) (< j nk) (= (ktd j) x))))))))
(assert (not (and (forall ((x Str)) (=> (isSecret x) (not (has1 x))))
                  (forall ((x Str)) (=> (not (isSecret x)) (= (has1 x) (has0 x)))))))
(check-sat)
(pop)
(push) ; mutant C19-1: the loop tests HasPrefix(k, "secret_") (no ToLower): the collected keys satisfy only Q(k); post must fail (expect sat / not unsat)
(define-fun Q ((k Str)) Bool (HasPrefix k lit_secret))
(declare-fun has1 (Str) Bool)
(assert (forall ((x Str)) (= (has1 x) (and (has0 x) (not (Q x))))))
(assert (not (forall ((x Str)) (=> (isSecret x) (not (has1 x))))))
(check-sat)
(pop)
