; Worked example SSA -> SMT, complete function: (*Netceptor).removeConnection (pkg/netceptor/netceptor.go), SSA blocks 0..6.
; Shows the Lock/Unlock rule with the ownership ghost (DESIGN 3.4) on a nested map.
;   types:  connections          map[string]*connInfo              -> MapHas_sc / MapVal_sc   (per map type, indexed by handle)
;           knownConnectionCosts map[string]map[string]float64     -> MapHas_o  / MapVal_o    (values are inner handles)
;           inner                map[string]float64                -> MapHas_i  / MapVal_i
(set-logic ALL)
(declare-sort Str 0)
(declare-const lit_empty Str)
(declare-const s Int) (declare-const remoteNodeID Str)
(declare-const CL Int) (declare-const KL Int)                    ; the two lock objects (s.connLock, s.knownNodeLock), distinct, non-nil
(assert (and (> s 0) (> CL 0) (> KL 0) (not (= CL KL))))
(declare-const nodeID Str)                                       ; s.nodeID   (immutable after construction)
(declare-const hC Int) (declare-const hK Int)                    ; s.connections, s.knownConnectionCosts handles (immutable after construction)
(assert (and (> hC 0) (> hK 0)))
(declare-const owner (Array Int Int))                            ; ownership ghost: ref -> lock ref or 0
; ---------------- block 0 ----------------
(define-fun g1 () Bool (not (= remoteNodeID lit_empty)))         ; t0 ; guard of block 1
; ---------------- block 1: Lock(connLock) ----------------
(declare-const MapHas_sc0 (Array Int (Array Str Bool))) (declare-const MapHas_sc1 (Array Int (Array Str Bool)))
(declare-const MapVal_sc0 (Array Int (Array Str Int)))  (declare-const MapVal_sc1 (Array Int (Array Str Int)))
; frame of the havoc: only objects owned by CL may differ
(assert (forall ((h Int)) (=> (not (= (select owner h) CL)) (and (= (select MapHas_sc1 h) (select MapHas_sc0 h)) (= (select MapVal_sc1 h) (select MapVal_sc0 h))))))
; invariant under connLock assumed (version 1)
(assert (= (select owner hC) CL))
(assert (forall ((k Str)) (=> (select (select MapHas_sc1 hC) k) (not (= (select (select MapVal_sc1 hC) k) 0)))))
; t6 = delete(t5, remoteNodeID)
(define-fun MapHas_sc2 () (Array Int (Array Str Bool)) (store MapHas_sc1 hC (store (select MapHas_sc1 hC) remoteNodeID false)))
(push) ; removeConnection#monitor:connLock:Unlock  (invariant re-established)  +  #atrelease:connLock: connections' = connections \ {id}
(assert g1)
(assert (not (and
   (forall ((k Str)) (=> (select (select MapHas_sc2 hC) k) (not (= (select (select MapVal_sc1 hC) k) 0))))
   (not (select (select MapHas_sc2 hC) remoteNodeID))
   (forall ((k Str)) (=> (not (= k remoteNodeID)) (= (select (select MapHas_sc2 hC) k) (select (select MapHas_sc1 hC) k)))))))
(check-sat)
(pop)
; ---------------- Lock(knownNodeLock) ----------------
(declare-const MapHas_o1 (Array Int (Array Str Bool))) (declare-const MapVal_o1 (Array Int (Array Str Int)))
(declare-const MapHas_i1 (Array Int (Array Str Bool))) (declare-const MapVal_i1 (Array Int (Array Str Real)))
(define-fun hasO ((u Str)) Bool (select (select MapHas_o1 hK) u))
(define-fun inner ((u Str)) Int (select (select MapVal_o1 hK) u))
; invariant under knownNodeLock assumed: inner maps non-nil, owned, pairwise distinct, distinct from the outer map; costs positive
(assert (= (select owner hK) KL))
(assert (forall ((u Str)) (=> (hasO u) (and (> (inner u) 0) (= (select owner (inner u)) KL)))))
(assert (forall ((u Str) (v Str)) (=> (and (hasO u) (hasO v) (not (= u v))) (not (= (inner u) (inner v))))))
(assert (forall ((u Str) (v Str)) (=> (and (hasO u) (select (select MapHas_i1 (inner u)) v)) (> (select (select MapVal_i1 (inner u)) v) 0.0))))
; block 1 tail / block 3:  if _, ok := kcc[id]; ok { delete(kcc[id], s.nodeID) }        (delete on a nil inner map would be a no-op)
(define-fun ok1 () Bool (hasO remoteNodeID))
(define-fun MapHas_i2 () (Array Int (Array Str Bool))
   (ite ok1 (store MapHas_i1 (inner remoteNodeID) (store (select MapHas_i1 (inner remoteNodeID)) nodeID false)) MapHas_i1))
; block 4 / 5:  if _, ok := kcc[s.nodeID]; ok { delete(kcc[s.nodeID], id) }
(define-fun ok2 () Bool (hasO nodeID))
(define-fun MapHas_i3 () (Array Int (Array Str Bool))
   (ite ok2 (store MapHas_i2 (inner nodeID) (store (select MapHas_i2 (inner nodeID)) remoteNodeID false)) MapHas_i2))
(define-fun edge3 ((u Str) (v Str)) Bool (and (hasO u) (select (select MapHas_i3 (inner u)) v)))
(define-fun edge1 ((u Str) (v Str)) Bool (and (hasO u) (select (select MapHas_i1 (inner u)) v)))
(push) ; removeConnection#atrelease:knownNodeLock : both directed edges gone, every other edge and every cost unchanged, invariant kept
(assert g1)
(assert (not (and
   (not (edge3 remoteNodeID nodeID)) (not (edge3 nodeID remoteNodeID))
   (forall ((u Str) (v Str)) (=> (not (or (and (= u remoteNodeID) (= v nodeID)) (and (= u nodeID) (= v remoteNodeID)))) (= (edge3 u v) (edge1 u v))))
   (forall ((u Str) (v Str)) (=> (edge3 u v) (> (select (select MapVal_i1 (inner u)) v) 0.0))))))        ; kccPositive preserved
(check-sat)
(pop)
; (the injectivity clause of the invariant is what makes 'every other edge unchanged' provable: see probes/c06 for the aliasing argument)
