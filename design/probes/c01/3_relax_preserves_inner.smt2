; C01 worked VCs: updateRoutingTable (pkg/netceptor/netceptor.go). Node ids are an uninterpreted sort;
; nilN is the empty string "". K = keys(knownConnectionCosts); has/w = its edges; kccPositive is the lock invariant.
(set-logic ALL)
(declare-sort Node 0)
(declare-const self Node)
(declare-const nilN Node)
(declare-const M Real)
(assert (> M 0.0))
(declare-fun K (Node) Bool)
(declare-fun has (Node Node) Bool)
(declare-fun w (Node Node) Real)
(assert (forall ((u Node) (v Node)) (=> (has u v) (and (K u) (> (w u v) 0.0)))))  ; kccPositive + rows exist only for keys
(assert (not (K nilN)))                                                            ; "" is never a key (handleRoutingUpdate R1, D5 repaired)
(assert (not (= self nilN)))
; --- obligation: updateRoutingTable#inv:relax-loop:preserve   (one iteration for neighbour v of n)
(declare-fun C (Node) Real) (declare-fun P (Node) Node) (declare-fun inQ (Node) Bool) (declare-fun vis (Node) Bool)
(declare-const n Node) (declare-const v Node)
(define-fun gc ((x Node)) Real (ite (K x) (C x) 0.0))
(define-fun tense ((u Node) (x Node)) Bool (and (has u x) (K x) (< (+ (gc u) (w u x)) (gc x))))
(assert (=> (K self) (and (= (C self) 0.0) (= (P self) nilN))))
(assert (forall ((x Node)) (=> (K x) (and (>= (C x) 0.0) (<= (C x) M)))))
(assert (forall ((x Node)) (=> (and (K x) (not (= (P x) nilN))) (and (has (P x) x) (not (= x self)) (< (gc (P x)) M) (< (C x) M) (>= (C x) (+ (gc (P x)) (w (P x) x)))))))
(assert (forall ((x Node)) (=> (and (K x) (= (P x) nilN) (not (= x self))) (= (C x) M))))
(assert (forall ((u Node) (x Node)) (=> (tense u x) (or (inQ u) (and (= u n) (not (vis x)))))))
(assert (forall ((x Node)) (=> (inQ x) (or (= x self) (K x)))))
(assert (and (has n v) (not (vis v))))                               ; Next() on range kcc[n]
(define-fun pc () Real (+ (gc n) (w n v)))
(define-fun relax () Bool (< pc (gc v)))                              ; cost[neighbor] of a missing key reads 0.0
(define-fun C2 ((x Node)) Real (ite (and relax (= x v)) pc (C x)))
(define-fun P2 ((x Node)) Node (ite (and relax (= x v)) n (P x)))
(define-fun inQ2 ((x Node)) Bool (or (inQ x) (and relax (= x v))))    ; trusted Insert(): set union
(define-fun vis2 ((x Node)) Bool (or (vis x) (= x v)))
(define-fun gc2 ((x Node)) Real (ite (K x) (C2 x) 0.0))
(define-fun tense2 ((u Node) (x Node)) Bool (and (has u x) (K x) (< (+ (gc2 u) (w u x)) (gc2 x))))
(assert (not (and
  (=> relax (K v))                                                     ; dom(cost) stays K: the store happens only for keys
  (=> (K self) (and (= (C2 self) 0.0) (= (P2 self) nilN)))
  (forall ((x Node)) (=> (K x) (and (>= (C2 x) 0.0) (<= (C2 x) M))))
  (forall ((x Node)) (=> (and (K x) (not (= (P2 x) nilN))) (and (has (P2 x) x) (not (= x self)) (< (gc2 (P2 x)) M) (< (C2 x) M) (>= (C2 x) (+ (gc2 (P2 x)) (w (P2 x) x))))))
  (forall ((x Node)) (=> (and (K x) (= (P2 x) nilN) (not (= x self))) (= (C2 x) M)))
  (forall ((u Node) (x Node)) (=> (tense2 u x) (or (inQ2 u) (and (= u n) (not (vis2 x))))))
  (forall ((x Node)) (=> (inQ2 x) (or (= x self) (K x)))))))
(check-sat)
