; C01 worked VCs: updateRoutingTable (pkg/netceptor/netceptor.go). Node ids are an uninterpreted sort;
; nilN is the empty string "". K = keys(knownConnectionCosts); has/w = its edges; kccPositive is the lock invariant.
(set-logic ALL)
(declare-sort Node 0)
(declare-const self Node)
(declare-const nilN Node)
(declare-const M Real)
(assert (> M 0.0))
(declare-fun K (Node) Bool)
(declare-fun has (Node Node) Bool)
(declare-fun w (Node Node) Real)
(assert (forall ((u Node) (v Node)) (=> (has u v) (and (K u) (> (w u v) 0.0)))))  ; kccPositive + rows exist only for keys
(assert (not (K nilN)))                                                            ; "" is never a key (handleRoutingUpdate R1, D5 repaired)
(assert (not (= self nilN)))
; --- obligation: updateRoutingTable#inv:relax-loop:entry   (after Q.Pop() returned n; visited = {})
(declare-fun C (Node) Real) (declare-fun P (Node) Node) (declare-fun inQ (Node) Bool)
(declare-const n Node)
(define-fun gc ((x Node)) Real (ite (K x) (C x) 0.0))
(define-fun tense ((u Node) (x Node)) Bool (and (has u x) (K x) (< (+ (gc u) (w u x)) (gc x))))
(assert (forall ((u Node) (x Node)) (=> (tense u x) (inQ u))))       ; I4 before the pop
(assert (inQ n))                                                      ; trusted Pop(): some element of the set
(define-fun inQ2 ((x Node)) Bool (and (inQ x) (not (= x n))))
(assert (not (forall ((u Node) (x Node)) (=> (tense u x) (or (inQ2 u) (= u n))))))   ; I4' with visited empty
(check-sat)
