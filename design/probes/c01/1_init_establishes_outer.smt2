; C01 worked VCs: updateRoutingTable (pkg/netceptor/netceptor.go). Node ids are an uninterpreted sort;
; nilN is the empty string "". K = keys(knownConnectionCosts); has/w = its edges; kccPositive is the lock invariant.
(set-logic ALL)
(declare-sort Node 0)
(declare-const self Node)
(declare-const nilN Node)
(declare-const M Real)
(assert (> M 0.0))
(declare-fun K (Node) Bool)
(declare-fun has (Node Node) Bool)
(declare-fun w (Node Node) Real)
(assert (forall ((u Node) (v Node)) (=> (has u v) (and (K u) (> (w u v) 0.0)))))  ; kccPositive + rows exist only for keys
(assert (not (K nilN)))                                                            ; "" is never a key (handleRoutingUpdate R1, D5 repaired)
(assert (not (= self nilN)))
; --- obligation: updateRoutingTable#inv:Q-loop:entry
(declare-fun C (Node) Real) (declare-fun P (Node) Node) (declare-fun inQ (Node) Bool)
; post-state of the init loop: dom(cost)=dom(prev)=K, values as assigned, everything queued
(assert (forall ((n Node)) (=> (K n) (and (= (C n) (ite (= n self) 0.0 M)) (= (P n) nilN)))))
(assert (forall ((n Node)) (= (inQ n) (or (= n self) (K n)))))
(define-fun gc ((x Node)) Real (ite (K x) (C x) 0.0))
(define-fun tense ((u Node) (x Node)) Bool (and (has u x) (K x) (< (+ (gc u) (w u x)) (gc x))))
(assert (not (and
  (=> (K self) (and (= (C self) 0.0) (= (P self) nilN)))
  (forall ((x Node)) (=> (K x) (and (>= (C x) 0.0) (<= (C x) M))))
  (forall ((x Node)) (=> (and (K x) (not (= (P x) nilN))) (and (has (P x) x) (not (= x self)) (< (gc (P x)) M) (< (C x) M) (>= (C x) (+ (gc (P x)) (w (P x) x))))))
  (forall ((x Node)) (=> (and (K x) (= (P x) nilN) (not (= x self))) (= (C x) M)))
  (forall ((u Node) (x Node)) (=> (tense u x) (inQ u)))
  (forall ((n Node)) (=> (inQ n) (or (= n self) (K n)))))))
(check-sat)
