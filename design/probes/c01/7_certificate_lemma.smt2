; C01 worked VCs: updateRoutingTable (pkg/netceptor/netceptor.go). Node ids are an uninterpreted sort;
; nilN is the empty string "". K = keys(knownConnectionCosts); has/w = its edges; kccPositive is the lock invariant.
(set-logic ALL)
(declare-sort Node 0)
(declare-const self Node)
(declare-const nilN Node)
(declare-const M Real)
(assert (> M 0.0))
(declare-fun K (Node) Bool)
(declare-fun has (Node Node) Bool)
(declare-fun w (Node Node) Real)
(assert (forall ((u Node) (v Node)) (=> (has u v) (and (K u) (> (w u v) 0.0)))))  ; kccPositive + rows exist only for keys
(assert (not (K nilN)))                                                            ; "" is never a key (handleRoutingUpdate R1, D5 repaired)
(assert (not (= self nilN)))
; --- lemma#C01.certificate: the certificate (i)-(iii) characterises least cost. Pure graph reasoning, no code.
; Part LB (lower bound): every walk from self to a key x has length >= cost[x].   Induction on the number of edges k.
; Part UB (upper bound): cost[x] is the length of the walk self -> ... -> prev[prev[x]] -> prev[x] -> x.  Induction along the prev-chain.
; The induction principles themselves are meta-level ("induction schema" in the evidence); base and step are checked here.
(declare-fun C (Node) Real) (declare-fun P (Node) Node)
(define-fun gc ((x Node)) Real (ite (K x) (C x) 0.0))
; certificate as established by obligation 5
(assert (=> (K self) (= (C self) 0.0)))
(assert (forall ((x Node)) (=> (K x) (>= (C x) 0.0))))
(assert (forall ((u Node) (x Node)) (=> (and (has u x) (K x)) (<= (gc x) (+ (gc u) (w u x))))))
(assert (forall ((x Node)) (=> (and (K x) (not (= x self)) (< (C x) M))
     (and (not (= (P x) nilN)) (has (P x) x) (K (P x)) (< (gc (P x)) M) (= (C x) (+ (gc (P x)) (w (P x) x)))))))
; walks: W k x l  <=>  there is a walk of exactly k edges from self to x of total length l
(declare-fun W (Int Node Real) Bool)
(assert (forall ((x Node) (l Real)) (= (W 0 x l) (and (= x self) (= l 0.0)))))
(assert (forall ((k Int) (x Node) (l Real)) (=> (and (>= k 0) (W (+ k 1) x l))
     (exists ((u Node) (l2 Real)) (and (W k u l2) (has u x) (= l (+ l2 (w u x))))))))
(push) ; LB base
(assert (not (forall ((x Node) (l Real)) (=> (and (W 0 x l) (K x)) (<= (gc x) l)))))
(check-sat)
(pop)
; (the step proves the key case; for a non-key x, gc x = 0 <= l follows from the side condition below, so Q(k+1) holds for all x)
(push) ; LB step
(declare-const k Int) (assert (>= k 0))
(assert (forall ((x Node) (l Real)) (=> (W k x l) (<= (gc x) l))))          ; IH (for u not a key gc u = 0 <= l holds as lengths are >= 0; stated for all x)
(declare-const x Node) (declare-const l Real)
(assert (and (W (+ k 1) x l) (K x)))
(assert (not (<= (gc x) l)))
(check-sat)
(pop)
(push) ; LB side condition used by the IH for non-keys: walk lengths are non-negative (base + step in one)
(declare-const k Int) (assert (>= k 0))
(assert (forall ((x Node) (l Real)) (=> (W k x l) (>= l 0.0))))
(assert (not (forall ((x Node) (l Real)) (=> (W (+ k 1) x l) (>= l 0.0)))))
(check-sat)
(pop)
; UB: L = length of the prev-chain walk, defined by its unfolding
(declare-fun L (Node) Real)
(assert (= (L self) 0.0))
(assert (forall ((x Node)) (=> (and (K x) (not (= x self)) (not (= (P x) nilN))) (= (L x) (+ (L (P x)) (w (P x) x))))))
(push) ; UB step: reachable x != self, IH for prev[x] (which is reachable: cost < M)  =>  cost[x] = L(x)
(declare-const x Node)
(assert (and (K x) (not (= x self)) (< (C x) M)))
(assert (=> (and (K (P x)) (< (gc (P x)) M)) (= (gc (P x)) (L (P x)))))     ; IH
(assert (not (= (C x) (L x))))
(check-sat)
(pop)
(push) ; UB base
(assert (not (=> (K self) (= (C self) (L self)))))
(check-sat)
(pop)
