; C01 worked VCs: updateRoutingTable (pkg/netceptor/netceptor.go). Node ids are an uninterpreted sort;
; nilN is the empty string "". K = keys(knownConnectionCosts); has/w = its edges; kccPositive is the lock invariant.
(set-logic ALL)
(declare-sort Node 0)
(declare-const self Node)
(declare-const nilN Node)
(declare-const M Real)
(assert (> M 0.0))
(declare-fun K (Node) Bool)
(declare-fun has (Node Node) Bool)
(declare-fun w (Node Node) Real)
(assert (forall ((u Node) (v Node)) (=> (has u v) (and (K u) (> (w u v) 0.0)))))  ; kccPositive + rows exist only for keys
(assert (not (K nilN)))                                                            ; "" is never a key (handleRoutingUpdate R1, D5 repaired)
(assert (not (= self nilN)))
; --- obligation: updateRoutingTable#inv:Q-loop:preserve   (inner loop done: visited = dom(kcc[n]))
(declare-fun C (Node) Real) (declare-fun P (Node) Node) (declare-fun inQ (Node) Bool) (declare-fun vis (Node) Bool)
(declare-const n Node)
(define-fun gc ((x Node)) Real (ite (K x) (C x) 0.0))
(define-fun tense ((u Node) (x Node)) Bool (and (has u x) (K x) (< (+ (gc u) (w u x)) (gc x))))
(assert (forall ((u Node) (x Node)) (=> (tense u x) (or (inQ u) (and (= u n) (not (vis x)))))))
(assert (forall ((x Node)) (= (vis x) (has n x))))                    ; Next() returned ok=false
(assert (not (forall ((u Node) (x Node)) (=> (tense u x) (inQ u)))))
(check-sat)
