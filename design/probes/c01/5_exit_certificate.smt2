; C01 worked VCs: updateRoutingTable (pkg/netceptor/netceptor.go). Node ids are an uninterpreted sort;
; nilN is the empty string "". K = keys(knownConnectionCosts); has/w = its edges; kccPositive is the lock invariant.
(set-logic ALL)
(declare-sort Node 0)
(declare-const self Node)
(declare-const nilN Node)
(declare-const M Real)
(assert (> M 0.0))
(declare-fun K (Node) Bool)
(declare-fun has (Node Node) Bool)
(declare-fun w (Node Node) Real)
(assert (forall ((u Node) (v Node)) (=> (has u v) (and (K u) (> (w u v) 0.0)))))  ; kccPositive + rows exist only for keys
(assert (not (K nilN)))                                                            ; "" is never a key (handleRoutingUpdate R1, D5 repaired)
(assert (not (= self nilN)))
; --- obligation: updateRoutingTable#ensures:(i)-(iii)   (Q empty)
(declare-fun C (Node) Real) (declare-fun P (Node) Node) (declare-fun inQ (Node) Bool)
(define-fun gc ((x Node)) Real (ite (K x) (C x) 0.0))
(define-fun tense ((u Node) (x Node)) Bool (and (has u x) (K x) (< (+ (gc u) (w u x)) (gc x))))
(assert (=> (K self) (and (= (C self) 0.0) (= (P self) nilN))))
(assert (forall ((x Node)) (=> (K x) (and (>= (C x) 0.0) (<= (C x) M)))))
(assert (forall ((x Node)) (=> (and (K x) (not (= (P x) nilN))) (and (has (P x) x) (not (= x self)) (< (gc (P x)) M) (< (C x) M) (>= (C x) (+ (gc (P x)) (w (P x) x)))))))
(assert (forall ((x Node)) (=> (and (K x) (= (P x) nilN) (not (= x self))) (= (C x) M))))
(assert (forall ((u Node) (x Node)) (=> (tense u x) (inQ u))))
(assert (forall ((x Node)) (not (inQ x))))                              ; Q.Len() = 0
(assert (not (and
  (=> (K self) (= (C self) 0.0))                                                                    ; (i)
  (forall ((u Node) (x Node)) (=> (and (has u x) (K x)) (<= (gc x) (+ (gc u) (w u x)))))            ; (ii) feasible potential
  (forall ((x Node)) (=> (and (K x) (not (= x self)) (< (C x) M))                                   ; (iii) witness with equality
       (and (not (= (P x) nilN)) (has (P x) x) (K (P x)) (< (gc (P x)) M) (= (C x) (+ (gc (P x)) (w (P x) x))))))
  (forall ((x Node)) (=> (and (K x) (not (= x self))) (= (< (C x) M) (not (= (P x) nilN))))))))     ; reachable <=> has a predecessor
(check-sat)
